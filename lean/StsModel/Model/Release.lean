/-
  Model of the SENDER's release decisions (properties C02 and C07):

    client/client.go   recover(), scan() (the cache side: include, clean-up, hash, cache update),
                       startValidate (one processed poll batch / the whole loop), finish(),
                       startRetry (the worker behind the retry channel),
                       canDelete(), startTrack (per-part bookkeeping, hand-over to the validator)
    cache/local.go     Get, Add/add, Done, Remove, Persist (with the dirty flag)
    store/local.go     Sync, Remove (as far as the decisions depend on them)

  Every externally visible action is an `Eff` in the trace a step returns, in the order the
  code performs it. Time is data: times are integers (hours relative to the case's base
  instant), and the current instant lies strictly between `now - 1` and `now`, so that
  `time.Since(t) > d` is `now - t > d` and "modified in the future" is `t ≥ now`.

  `Fixes` selects between the code as found (`Fixes.original`) and the code after the
  repairs proposed with this model (`Fixes.repaired`); theorems are about `repaired`, the
  witnesses of the defects about `original`.

  Core Lean only (this file is linked into the `stsdrv` executable).
-/
import StsModel.Model.Ranges

namespace Sts.Release

abbrev Name := String

/-- cache/local.go cacheFile (path and meta are not modelled: plain files only). -/
structure CEntry where
  name : Name
  size : Int
  time : Int
  hash : String
  done : Bool
deriving DecidableEq, Repr, Inhabited

/-- the cache in iteration order (Go iterates a map; the harness fixes the order by name,
    the theorems hold for every order). -/
abbrev Cache := List CEntry

/-- a file of the source directory; `hash` is what hashing its current content gives. -/
structure SFile where
  name : Name
  size : Int
  time : Int
  hash : String
deriving DecidableEq, Repr, Inhabited

abbrev Store := List SFile

/-- client.FileTag (InOrder is irrelevant here). -/
structure Tag where
  name : String
  delete : Bool
  delay : Int
deriving DecidableEq, Repr, Inhabited

/-- sts.Partial as recover() uses it. -/
structure Partial where
  name : Name
  size : Int
  hash : String
  prev : String
  parts : List Rng
deriving DecidableEq, Repr, Inhabited

/-- poll answer codes (sts.go ConfirmNone/Failed/Passed/Waiting); `other` is any other
    code, `omit` means the answer does not mention the file. -/
inductive Verdict
  | none | failed | passed | waiting | other | omit
deriving DecidableEq, Repr, Inhabited

def Verdict.positive : Verdict → Bool
  | .passed => true
  | .waiting => true
  | _ => false

/-- store/local.go Sync: IsNotExist error, a new file object (changed), or nil (same). -/
inductive SyncRes
  | absent | changed | same
deriving DecidableEq, Repr, Inhabited

/-- the proposed repairs, individually switchable. -/
structure Fixes where
  /-- finish(): `Sync` before `Store.Remove`, no deletion when the file changed -/
  finishSync : Bool
  /-- scan() clean-up: `Sync` before `Store.Remove`, no deletion when the file changed -/
  scanSync : Bool
  /-- cache add(): replacing an entry clears its `Done` flag -/
  addReset : Bool
  /-- recover() gap loop: a listed range that starts before the running end is skipped
      (the end only moves forward) -/
  gapClamp : Bool
  /-- recover(): a failed poll request is repeated (as in the validator loop) instead of
      abandoning the recovery -/
  pollRetry : Bool
  /-- startTrack: once its input is closed, entries that are still incomplete are dropped (the
      tracker returns) instead of being waited for for ever -/
  trackDrop : Bool
deriving DecidableEq, Repr, Inhabited

def Fixes.repaired : Fixes := ⟨true, true, true, true, true, true⟩
def Fixes.original : Fixes := ⟨false, false, false, false, false, false⟩

structure Env where
  tags : List Tag
  tagOf : Name → String
  ign : Name → Bool
  now : Int
  pollMax : Nat
  attempts : Nat

/-- what recover() appends to `send`. -/
inductive Push
  /-- recoverFile around a placeholderFile (a file only the receiver knows), no ranges -/
  | placeholder (name : Name) (size : Int) (hash : String)
  /-- recoverFile around the cache entry, no ranges (done or just confirmed) -/
  | allocated (name : Name)
  /-- recoverFile with the ranges still to send and the predecessor announced before -/
  | resume (name : Name) (prev : String) (left : List Rng)
  /-- the bare cache entry: sent whole -/
  | plain (name : Name)
deriving DecidableEq, Repr, Inhabited

/-- observable actions, in code order. -/
inductive Eff
  | recErr
  | cacheRemove (n : Name)
  /-- `Cache.Done(n, whileLocked)`; `closure` says whether a closure was passed (finish) -/
  | cacheDone (n : Name) (closure : Bool)
  | cacheAdd (n : Name)
  /-- `Store.Remove` of the path of cache entry `entry`; `file` is what is on disk under
      that name at this instant -/
  | storeRemove (n : Name) (entry : CEntry) (file : Option SFile)
  | wasSent (n : Name)
  | logSent (n : Name) (hash : String)
  | poll (names : List Name)
  /-- the answer to the last poll request says `v` about `n` -/
  | answer (n : Name) (v : Verdict)
  | pollErr
  | persist
  | push (p : Push)
  | retry (n : Name)
deriving DecidableEq, Repr, Inhabited

structure St where
  cache : Cache := []
  disk : Cache := []
  dirty : Bool := false
  store : Store := []
  answers : List (Name × List Verdict) := []
  pollErrs : Nat := 0
  recErrs : Nat := 0
  logged : List (Name × String) := []
  partials : List Partial := []
deriving DecidableEq, Repr, Inhabited

/-! ### generic loop with an effect trace -/

def runLoop {σ α : Type} (body : σ → α → σ × List Eff) : σ → List α → σ × List Eff
  | s, [] => (s, [])
  | s, x :: xs =>
    let r1 := body s x
    let r2 := runLoop body r1.1 xs
    (r2.1, r1.2 ++ r2.2)

/-! ### cache/local.go -/

def cget (c : Cache) (n : Name) : Option CEntry := c.find? (fun e => e.name = n)

def cremove (c : Cache) (n : Name) : Cache := c.filter (fun e => e.name ≠ n)

def cmark (c : Cache) (n : Name) : Cache :=
  c.map (fun e => if e.name = n then { e with done := true } else e)

def cinsert (e : CEntry) : Cache → Cache
  | [] => [e]
  | x :: xs => if e.name < x.name then e :: x :: xs else x :: cinsert e xs

/-- cache/local.go add: an existing entry gets the new size/time/hash (and, repaired, loses
    its Done flag); a new entry is not done. -/
def cadd (fx : Fixes) (c : Cache) (n : Name) (size time : Int) (hash : String) : Cache :=
  if c.any (fun e => e.name = n) then
    c.map (fun e => if e.name = n then
      { e with size := size, time := time, hash := hash, done := if fx.addReset then false else e.done }
      else e)
  else cinsert ⟨n, size, time, hash, false⟩ c

/-- cache/local.go Remove (dirty only when the key exists). -/
def St.cacheRemove (st : St) (n : Name) : St :=
  match cget st.cache n with
  | none => st
  | some _ => { st with cache := cremove st.cache n, dirty := true }

/-- cache/local.go Done with `whileLocked = nil`: nothing when the key is unknown or already
    done. -/
def St.cacheDone (st : St) (n : Name) : St :=
  match cget st.cache n with
  | none => st
  | some e => if e.done then st else { st with cache := cmark st.cache n, dirty := true }

/-- cache/local.go Persist: writes only when dirty (tmp file + rename: the file on disk is
    the old or the new cache, never a torn one). -/
def St.persist (st : St) : St :=
  if st.dirty then { st with disk := st.cache, dirty := false } else st

/-! ### store/local.go -/

def sfind (s : Store) (n : Name) : Option SFile := s.find? (fun f => f.name = n)

def sremove (s : Store) (n : Name) : Store := s.filter (fun f => f.name ≠ n)

def sync (s : Store) (e : CEntry) : SyncRes :=
  match sfind s e.name with
  | none => .absent
  | some f => if f.time ≠ e.time ∨ f.size ≠ e.size then .changed else .same

/-! ### client.go canDelete -/

/-- Start(): `tagMap[tag.Name] = tag` in configuration order, so the last tag of a name wins. -/
def tagLookup (tags : List Tag) (t : String) : Option Tag := tags.reverse.find? (fun g => g.name = t)

def cleanSome (tags : List Tag) : Bool := tags.any (fun g => g.delete)

/-- client.go canDelete. -/
def canDelete (env : Env) (e : CEntry) : Bool :=
  if !cleanSome env.tags then false
  else match tagLookup env.tags (env.tagOf e.name) with
    | some g =>
      if g.delete then
        if g.delay = 0 then true else decide (env.now - e.time > g.delay)
      else false
    | none => false

/-! ### client.go finish -/

/-- `Cache.Done(name, whileLocked)` with the closure of finish(): mark done; when the tag
    allows deletion now, remove the file (repaired: unless it is no longer the confirmed
    version). `Done` returns early, without calling the closure, for an unknown key and for
    an entry that is done already. -/
def doneAndDelete (fx : Fixes) (env : Env) (st : St) (n : Name) : St × List Eff :=
  match cget st.cache n with
  | none => (st, [.cacheDone n true])
  | some e =>
    if e.done then (st, [.cacheDone n true])
    else
      let st1 := { st with cache := cmark st.cache n, dirty := true }
      if canDelete env e then
        if fx.finishSync ∧ sync st.store e = .changed then (st1, [.cacheDone n true])
        else ({ st1 with store := sremove st1.store n },
              [.cacheDone n true, .storeRemove n e (sfind st.store n)])
      else (st1, [.cacheDone n true])

/-- client.go finish: Waiting/Received → done (+ delete); everything else → retry channel. -/
def finish (fx : Fixes) (env : Env) (st : St) (n : Name) (v : Verdict) : St × List Eff :=
  if v.positive then doneAndDelete fx env st n else (st, [.retry n])

/-! ### scripted poll answers -/

/-- next scripted verdict of a name; the last one repeats; unscripted = `none`. -/
def nextAnswer (as : List (Name × List Verdict)) (n : Name) : Verdict × List (Name × List Verdict) :=
  match as with
  | [] => (.none, [])
  | (m, vs) :: rest =>
    if m = n then
      match vs with
      | [] => (.none, (m, vs) :: rest)
      | [v] => (v, (m, vs) :: rest)
      | v :: vs' => (v, (m, vs') :: rest)
    else
      let r := nextAnswer rest n
      (r.1, (m, vs) :: r.2)

/-- one successful Validator call: an answer per asked file, in request order, files the
    answer does not mention are dropped. -/
def takeAnswers {α : Type} (nameOf : α → Name) :
    List (Name × List Verdict) → List α → List (α × Verdict) × List (Name × List Verdict)
  | as, [] => ([], as)
  | as, x :: xs =>
    let r := nextAnswer as (nameOf x)
    let rest := takeAnswers nameOf r.2 xs
    (if r.1 = .omit then rest.1 else (x, r.1) :: rest.1, rest.2)

def answerEffs {α : Type} (nameOf : α → Name) (l : List (α × Verdict)) : List Eff :=
  l.map (fun x => Eff.answer (nameOf x.1) x.2)

/-! ### client.go recover() -/

def lkget (lk : List Partial) (n : Name) : Option Partial := lk.find? (fun p => p.name = n)

/-- the repaired gap loop of recover(): a listed range that begins at or before the running
    end only moves the end forward. -/
def gapsFixedAux : List Rng → Int → List Rng
  | [], _ => []
  | p :: ps, b =>
    if p.beg ≤ b then gapsFixedAux ps (if p.fin > b then p.fin else b)
    else ⟨b, p.beg⟩ :: gapsFixedAux ps p.fin

def lastEndFixed : List Rng → Int → Int
  | [], b => b
  | p :: ps, b =>
    if p.beg ≤ b then lastEndFixed ps (if p.fin > b then p.fin else b)
    else lastEndFixed ps p.fin

def missingFixedSorted (ps : List Rng) (size : Int) : List Rng :=
  let g := gapsFixedAux ps 0
  let b := lastEndFixed ps 0
  if b < size then g ++ [⟨b, size⟩] else g

/-- Go's sort.Sort with Less = c[i].Beg-c[j].Beg < 0: for at most 12 elements it is an
    insertion sort from the left, which keeps parts with equal Beg in their listed order
    (`sortByBeg` of Model/Ranges inserts from the right and reverses them). -/
def sortStable (ps : List Rng) : List Rng := ps.foldl (fun acc r => insertByBeg r acc) []

def missingFixed (ps : List Rng) (size : Int) : List Rng := missingFixedSorted (sortStable ps) size

/-- the gap computation of recover() as found (`missingSorted` of Model/Ranges on the
    stably sorted parts). -/
def missingOrig (ps : List Rng) (size : Int) : List Rng := missingSorted (sortStable ps) size

/-- the ranges recover() decides to send for a listed partial. -/
def gaps (fx : Fixes) (ps : List Rng) (size : Int) : List Rng :=
  if fx.gapClamp then missingFixed ps size else missingOrig ps size

/-- first loop of recover(): a listed file that is not in the cache, or is done there,
    becomes a fully allocated placeholder; the others are remembered by name. -/
def recPartial (c : Cache) (lk : List Partial) (p : Partial) : List Partial × List Eff :=
  match cget c p.name with
  | none => (lk, [.push (.placeholder p.name p.size p.hash)])
  | some e => if e.done then (lk, [.push (.allocated p.name)]) else (p :: lk, [])

/-- body of the cache iteration of recover(). -/
def recEntry (fx : Fixes) (env : Env) (lk : List Partial) (s : St × List CEntry) (f : CEntry) :
    (St × List CEntry) × List Eff :=
  if f.done then (s, [])
  else if env.ign f.name then ((s.1.cacheRemove f.name, s.2), [.cacheRemove f.name])
  else match sync s.1.store f with
    | .absent => ((s.1.cacheDone f.name, s.2), [.cacheDone f.name false])
    | .changed => (s, [])
    | .same =>
      if f.hash = "" then (s, [])
      else match lkget lk f.name with
        | some p =>
          if gaps fx p.parts f.size = [] then ((s.1, s.2 ++ [f]), [])
          else (s, [.push (.resume f.name p.prev (gaps fx p.parts f.size))])
        | none => ((s.1, s.2 ++ [f]), [])

/-- the Waiting/Received case of recover(): consult the sent log, log when it has no record,
    push the entry as a fully allocated placeholder, finish. `h` is the hash of the polled
    file (as handed to the Validator), `c` the cache entry looked up again. -/
def recConfirm (fx : Fixes) (env : Env) (st : St) (c : CEntry) (h : String) (v : Verdict) :
    St × List Eff :=
  if st.logged.contains (c.name, h) then
    ((finish fx env st c.name v).1,
      [.wasSent c.name, .push (.allocated c.name)] ++ (finish fx env st c.name v).2)
  else
    ((finish fx env { st with logged := st.logged ++ [(c.name, c.hash)] } c.name v).1,
      [.wasSent c.name, .logSent c.name c.hash, .push (.allocated c.name)] ++
        (finish fx env { st with logged := st.logged ++ [(c.name, c.hash)] } c.name v).2)

/-- the verdict switch of recover(). The polled file carries name and hash as handed to the
    Validator, the cache entry is looked up again. -/
def recPolled (fx : Fixes) (env : Env) (lk : List Partial) (st : St) (x : CEntry × Verdict) :
    St × List Eff :=
  match cget st.cache x.1.name with
  | none => (st, [])
  | some c =>
    match x.2 with
    | .none => (st, [.push (.plain c.name)])
    | .failed =>
      match lkget lk c.name with
      | some p => (st, [.push (.resume c.name p.prev [⟨0, c.size⟩])])
      | none => (st, [.push (.plain c.name)])
    | .passed => recConfirm fx env st c x.1.hash .passed
    | .waiting => recConfirm fx env st c x.1.hash .waiting
    | .other => (st, [])
    | .omit => (st, [])

/-- one poll batch of recover(): request; as found, recover() returns at once on an error
    (no Persist); repaired, the request is repeated until it succeeds; then the verdict
    switch per answered file, then Persist. -/
def recBatch (fx : Fixes) (env : Env) (lk : List Partial) (st : St) (batch : List CEntry) :
    St × List Eff × Bool :=
  let names := batch.map (·.name)
  if st.pollErrs > 0 ∧ ¬ fx.pollRetry then
    ({ st with pollErrs := st.pollErrs - 1 }, [.poll names, .pollErr], true)
  else
    let errs := (List.replicate st.pollErrs [Eff.poll names, Eff.pollErr]).flatten
    let a := takeAnswers (·.name) st.answers batch
    let r := runLoop (recPolled fx env lk) { st with answers := a.2, pollErrs := 0 } a.1
    (r.1.persist, errs ++ [.poll names] ++ answerEffs (·.name) a.1 ++ r.2 ++ [.persist], false)

/-- `poll[:max]`, `poll[max:]` until empty. -/
def chunk {α : Type} (k : Nat) : Nat → List α → List (List α)
  | 0, _ => []
  | fuel + 1, l => if l.isEmpty then [] else l.take k :: chunk k fuel (l.drop k)

def recBatches (fx : Fixes) (env : Env) (lk : List Partial) : St → List (List CEntry) → St × List Eff × Bool
  | st, [] => (st, [], false)
  | st, b :: bs =>
    let r := recBatch fx env lk st b
    if r.2.2 then r
    else
      let r2 := recBatches fx env lk r.1 bs
      (r2.1, r.2.1 ++ r2.2.1, r2.2.2)

structure RecResult where
  st : St
  effs : List Eff
  /-- recover() returned an error: Start() logs it and does NOT push `send` -/
  err : Bool
  /-- the files that went to the poll list -/
  polled : List CEntry
  lookup : List Partial

/-- client.go recover(). -/
def recover (fx : Fixes) (env : Env) (st0 : St) : RecResult :=
  let e0 := List.replicate st0.recErrs Eff.recErr
  let st := { st0 with recErrs := 0 }
  let p1 := runLoop (recPartial st.cache) [] st.partials
  let p2 := runLoop (recEntry fx env p1.1) (st, []) st.cache
  let p3 := recBatches fx env p1.1 p2.1.1 (chunk env.pollMax p2.1.2.length p2.1.2)
  { st := p3.1, effs := e0 ++ p1.2 ++ p2.2 ++ p3.2.1, err := p3.2.2, polled := p2.1.2, lookup := p1.1 }

def pushesOf (effs : List Eff) : List Push :=
  effs.filterMap (fun e => match e with | .push p => some p | _ => none)

/-- what Start() hands to the queue after recover(). -/
def RecResult.queued (r : RecResult) : List Push := if r.err then [] else pushesOf r.effs

/-! ### client.go startValidate -/

structure PFile where
  name : Name
  hash : String
  polled : Nat
deriving DecidableEq, Repr, Inhabited

def pset (l : List PFile) (n : Name) (k : Nat) : List PFile :=
  l.map (fun p => if p.name = n then { p with polled := k } else p)

def pdel (l : List PFile) (n : Name) : List PFile := l.filter (fun p => p.name ≠ n)

/-- `finish(f)` followed by `delete(poll, f.GetName())`. -/
def valFinish (fx : Fixes) (env : Env) (s : St × List PFile) (n : Name) (v : Verdict) :
    (St × List PFile) × List Eff :=
  (((finish fx env s.1 n v).1, pdel s.2 n), (finish fx env s.1 n v).2)

/-- the verdict switch of the validator loop. -/
def valPolled (fx : Fixes) (env : Env) (s : St × List PFile) (x : PFile × Verdict) :
    (St × List PFile) × List Eff :=
  match x.2 with
  | .none =>
    match s.2.find? (fun p => p.name = x.1.name) with
    | none => (s, [])
    | some p =>
      if p.polled + 1 = env.attempts then valFinish fx env s x.1.name .none
      else ((s.1, pset s.2 x.1.name (p.polled + 1)), [])
  | .failed => valFinish fx env s x.1.name .failed
  | .waiting => valFinish fx env s x.1.name .waiting
  | .passed => valFinish fx env s x.1.name .passed
  | .other => (s, [])
  | .omit => (s, [])

/-- one processed poll batch: the request is repeated while it fails, then the verdict
    switch per answered file, then Persist. -/
def validateStep (fx : Fixes) (env : Env) (s : St × List PFile) (ready : List PFile) :
    (St × List PFile) × List Eff :=
  let names := ready.map (·.name)
  let errs := (List.replicate s.1.pollErrs [Eff.poll names, Eff.pollErr]).flatten
  let a := takeAnswers (·.name) s.1.answers ready
  let r := runLoop (valPolled fx env) ({ s.1 with pollErrs := 0, answers := a.2 }, s.2) a.1
  ((r.1.1.persist, r.1.2), errs ++ [.poll names] ++ answerEffs (·.name) a.1 ++ r.2 ++ [.persist])

/-- the loop until the poll set is empty (every round polls the first PollMaxCount files
    of the set; the real loop picks them in map order — per file the outcome is the same). -/
def validateRun (fx : Fixes) (env : Env) : Nat → St × List PFile → (St × List PFile) × List Eff
  | 0, s => (s, [])
  | fuel + 1, s =>
    if s.2.isEmpty then (s, [])
    else
      let r := validateStep fx env s (s.2.take env.pollMax)
      let r2 := validateRun fx env fuel r.1
      (r2.1, r.2 ++ r2.2)

/-! ### client.go scan(): include, clean-up, hash, cache update -/

/-- client.go includeScannedFile + store/local.go handleNode (ignore patterns, not from the
    future; MinAge 0). -/
def includeFile (env : Env) (c : Cache) (f : SFile) : Bool :=
  if env.ign f.name then false
  else if f.time ≥ env.now then false
  else if f.size = 0 then false
  else match cget c f.name with
    | some e => decide (e.size ≠ f.size ∨ e.time ≠ f.time)
    | none => true

/-- an element of `wrapped`: a scanned file, or a straggler (the live cache entry of a file
    whose hash is still missing). -/
inductive Wrapped
  | found (f : SFile)
  | strag (n : Name)
deriving DecidableEq, Repr, Inhabited

def Wrapped.name : Wrapped → Name
  | .found f => f.name
  | .strag n => n

/-- body of the clean-up iteration: stragglers are collected; a done entry whose tag allows
    deletion now is removed from the store and from the cache (repaired: unless the file
    is no longer the confirmed version). -/
def scanClean (fx : Fixes) (env : Env) (s : St × List Wrapped) (e : CEntry) :
    (St × List Wrapped) × List Eff :=
  if e.hash = "" then ((s.1, s.2 ++ [.strag e.name]), [])
  else if e.done ∧ canDelete env e then
    if fx.scanSync ∧ sync s.1.store e = .changed then (s, [])
    else (({ s.1 with store := sremove s.1.store e.name }.cacheRemove e.name, s.2),
          [.storeRemove e.name e (sfind s.1.store e.name), .cacheRemove e.name])
  else (s, [])

/-- the MD5 the hash workers compute: of the file's current content, empty when it cannot
    be opened (it is gone). -/
def hashNow (s : Store) (n : Name) : String :=
  match sfind s n with
  | some f => f.hash
  | none => ""

/-- body of the cache update: a file without hash that is gone is dropped from the cache;
    everything else is (re)added. A straggler is the live entry: it keeps the size and time
    the cache holds for it at that moment. -/
def scanUpdate (fx : Fixes) (s : St) (w : Wrapped) : St × List Eff :=
  let h := hashNow s.store w.name
  if h = "" then (s.cacheRemove w.name, [.cacheRemove w.name])
  else match w with
    | .found f => ({ s with cache := cadd fx s.cache f.name f.size f.time h, dirty := true }, [.cacheAdd f.name])
    | .strag n =>
      match cget s.cache n with
      | some c => ({ s with cache := cadd fx s.cache n c.size c.time h, dirty := true }, [.cacheAdd n])
      | none => (s, [])

structure ScanResult where
  st : St
  effs : List Eff
  /-- the files returned to the queue: name and hash -/
  ready : List (Name × String)

/-- client.go scan() (cache-age sweep, scan errors, the `.disabled` marker and hash failures
    of existing files are not modelled). -/
def scan (fx : Fixes) (env : Env) (st : St) : ScanResult :=
  let found := (st.store.filter (includeFile env st.cache)).map Wrapped.found
  let p1 := runLoop (scanClean fx env) (st, found) st.cache
  let st1 := p1.1.1
  let wrapped := p1.1.2
  let p2 := runLoop (scanUpdate fx) st1 wrapped
  let ready := wrapped.filterMap (fun w =>
    let h := hashNow st1.store w.name
    if h = "" then none else some (w.name, h))
  { st := p2.1.persist, effs := p1.2 ++ p2.2 ++ [.persist], ready := ready }

/-! ### client.go startRetry -/

/-- what the environment does to `opener(hashed)` / `ReadableMD5(fh)` in startRetry (scripted, one-shot,
    by name): `gone` = the file vanishes after `Sync` and the open reports not-exist; `openErr` = the open
    fails with any other error (EMFILE, EACCES, EIO …), the file is untouched; `readErr` = the file opens
    but reading it fails. -/
inductive Fault
  | gone | openErr | readErr
deriving DecidableEq, Repr, Inhabited

/-- an element of the retry channel: what finish() sent there (name and announced predecessor). -/
structure RFile where
  name : Name
  prev : String
deriving DecidableEq, Repr, Inhabited

/-- the first scripted fault of a name, and the script without it. -/
def takeFault : List (Name × Fault) → Name → Option Fault × List (Name × Fault)
  | [], _ => (none, [])
  | (m, k) :: rest, n =>
    if m = n then (some k, rest)
    else ((takeFault rest n).1, (m, k) :: (takeFault rest n).2)

/-- the tail of the loop body of startRetry: `cache.Add(hashed)` with the hash just computed (size and time
    are those of the cache entry the `hashFile` wraps), `cached = cache.Get(name)`, and the push of a
    `recoverFile` around it with the predecessor of the polled file and the whole file as the one range
    left to send. -/
def retryRequeue (fx : Fixes) (st : St) (f : RFile) (c : CEntry) (h : String) : St × List Eff :=
  let st1 := { st with cache := cadd fx st.cache f.name c.size c.time h, dirty := true }
  match cget st1.cache f.name with
  | some c1 => (st1, [.cacheAdd f.name, .push (.resume f.name f.prev [⟨0, c1.size⟩])])
  | none => (st1, [.cacheAdd f.name])

/-- one iteration of client.go startRetry for a file taken off `chRetry`: no cache entry: ignored; `Sync`
    reports an error or a changed file: ignored (the scan picks a changed file up); open fails with
    not-exist: `cache.Done(name, nil)`; open fails otherwise: nothing; read fails: re-added with an empty
    hash and queued; else re-added with the fresh hash and queued whole. The loop state carries the
    scripted faults. -/
def retryOne (fx : Fixes) (s : St × List (Name × Fault)) (f : RFile) :
    (St × List (Name × Fault)) × List Eff :=
  match cget s.1.cache f.name with
  | none => (s, [])
  | some c =>
    match sync s.1.store c with
    | .absent => (s, [])
    | .changed => (s, [])
    | .same =>
      match (takeFault s.2 f.name).1 with
      | some .gone =>
        (({ s.1 with store := sremove s.1.store f.name }.cacheDone f.name, (takeFault s.2 f.name).2),
          [.cacheDone f.name false])
      | some .openErr => ((s.1, (takeFault s.2 f.name).2), [])
      | some .readErr =>
        (((retryRequeue fx s.1 f c "").1, (takeFault s.2 f.name).2), (retryRequeue fx s.1 f c "").2)
      | none =>
        (((retryRequeue fx s.1 f c (hashNow s.1.store f.name)).1, (takeFault s.2 f.name).2),
          (retryRequeue fx s.1 f c (hashNow s.1.store f.name)).2)

/-- client.go startRetry until `chRetry` is empty (it never calls Persist). Faults that were not met are
    dropped with the end of the run. -/
def retryRun (fx : Fixes) (st : St) (files : List RFile) (faults : List (Name × Fault)) : St × List Eff :=
  let r := runLoop (retryOne fx) (st, faults) files
  (r.1.1, r.2)

/-! ### restart -/

def shiftC (k : Int) (c : Cache) : Cache := c.map (fun e => { e with time := e.time - k })
def shiftS (k : Int) (s : Store) : Store := s.map (fun f => { f with time := f.time - k })

/-- the process dies and is started again `k` hours later: the cache is what Persist wrote
    last; files and cache entries are `k` hours older. -/
def restart (k : Int) (st : St) : St :=
  { st with cache := shiftC k st.disk, disk := shiftC k st.disk, dirty := false,
            store := shiftS k st.store }

/-! ### client.go startTrack: per-part bookkeeping and hand-over to the validator -/

/-- one part of a transmitted payload as the tracker sees it. -/
structure TPart where
  name : Name
  hash : String
  sendSize : Int
  len : Int
deriving DecidableEq, Repr, Inhabited

structure TFile where
  name : Name
  hash : String
  size : Int
  sent : Int
deriving DecidableEq, Repr, Inhabited

/-- the per-part update of startTrack: new entry, or reset when the hash differs, then
    `sent += n`; returns whether the sent-log line is written (`sent ≥ size`). -/
def trackPart (prog : List TFile) (p : TPart) : List TFile × Bool :=
  match prog.find? (fun t => t.name = p.name) with
  | none =>
    let t : TFile := ⟨p.name, p.hash, p.sendSize, p.len⟩
    (prog ++ [t], decide (t.sent ≥ t.size))
  | some t =>
    let t1 : TFile := if t.hash ≠ p.hash then ⟨t.name, p.hash, p.sendSize, 0⟩ else t
    let t2 : TFile := { t1 with sent := t1.sent + p.len }
    (prog.map (fun u => if u.name = p.name then t2 else u), decide (t2.sent ≥ t2.size))

/-- the hand-over loop: exactly the files with `sent ≥ size` leave the progress map. -/
def trackReady (prog : List TFile) : List TFile × List TFile :=
  (prog.filter (fun t => decide (t.sent ≥ t.size)), prog.filter (fun t => ¬ decide (t.sent ≥ t.size)))

/-- the tracker over a sequence of payloads (each a list of parts): after every payload the
    ready files are handed over. Returns remaining progress, files handed to the validator
    (in hand-over order up to the map order within one round) and the sent-log lines. -/
def trackRun : List TFile → List (List TPart) → List TFile × List TFile × List Name
  | prog, [] =>
    let r := trackReady prog
    (r.2, r.1, [])
  | prog, pl :: rest =>
    let r := trackReady prog
    let step := pl.foldl (fun (a : List TFile × List Name) p =>
      let u := trackPart a.1 p
      (u.1, if u.2 then a.2 ++ [p.name] else a.2)) (r.2, [])
    let r2 := trackRun step.1 rest
    (r2.1, r.1 ++ r2.2.1, step.2 ++ r2.2.2)

/-- startTrack after its input was closed, given the progress entries `trackRun` leaves: as found
    it waits for them for ever (`true`: the tracker never returns); repaired, it drops them and
    returns (the files stay not-done in the cache). -/
def trackStuck (fx : Fixes) (left : List TFile) : Bool := !fx.trackDrop && !left.isEmpty

end Sts.Release
