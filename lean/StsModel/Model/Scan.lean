/-
  Scan-time model of the sender (property C17, L0 part).

  What is modelled (Go source in parentheses):
    * the file store's walk over the outgoing directory and its eligibility filter
      (store/local.go `Local.Scan`, `handleNode`, `shouldIgnore`, `newLocalFile`;
       fileutil/fileutil.go `Walk` / `walk`),
    * how the client configures that store (main/client.go `clientApp.init`, the tag loop of
      `setDefaults`; store/local.go `AddStandardIgnore`),
    * the cache based change detection (client/client.go `includeScannedFile`),
    * `Local.Sync`, `Local.Remove`, the JSON cache (cache/local.go `Get/Add/Done/Remove`),
    * `Broker.scan()` (client/client.go): stuck-file sweep, store scan, clean-up of done and
      deletable entries, hashing, cache update, and `canDelete`.

  The model describes the REPAIRED code (five `fix:` patches, see Props/C17.lean); the
  behaviour of the code before each repair is kept next to it (`…Orig`) for the witnesses.

  Conventions.  A directory entry name contains no path separator, so a relative name is
  the list of its segments (`relStr` renders it with `/`, which is what the patterns see and
  what `filepath.Base` takes the last segment of).  Times are integers (nanoseconds in the
  harness) on one common clock; `now` is the scan's start time.  Go's `regexp` is trusted:
  patterns are restricted to five literal shapes that Lean can evaluate.
-/
namespace Sts

/-! ## Patterns (a fragment of Go regexp: quoted literals with optional anchors) -/

/-- `^lit`, `lit$`, `lit`, `^lit$`, and `(?:^|/)lit$` (the shape of the disable-marker ignore) -/
inductive PatKind where
  | pre | suf | inf | exact | seg
  deriving DecidableEq, Repr

structure Pat where
  kind : PatKind
  lit : String
  deriving DecidableEq, Repr

/-- `l` occurs as a contiguous block in the second list -/
def isInfixChars (l : List Char) : List Char → Bool
  | [] => l.isEmpty
  | c :: cs => l.isPrefixOf (c :: cs) || isInfixChars l cs

/-- `regexp.MatchString` for the five shapes -/
def Pat.test (p : Pat) (s : String) : Bool :=
  match p.kind with
  | .pre => p.lit.toList.isPrefixOf s.toList
  | .suf => p.lit.toList.isSuffixOf s.toList
  | .inf => isInfixChars p.lit.toList s.toList
  | .exact => s == p.lit
  | .seg => s == p.lit || ("/" ++ p.lit).toList.isSuffixOf s.toList

/-- fileutil.LockExt -/
def lockExt : String := ".lck"
/-- store/local.go `disabledName` -/
def disabledName : String := ".disabled"

/-- `strings.HasPrefix(name, ".")` -/
def hiddenName (n : String) : Bool :=
  match n.toList with
  | '.' :: _ => true
  | _ => false

/-- a relative name as the store prints it (segments joined by the path separator) -/
def relStr : List String → String
  | [] => ""
  | [s] => s
  | s :: rest => s ++ "/" ++ relStr rest

/-! ## Store configuration (store.Local fields; main/client.go `init`) -/

structure StoreConf where
  includeHidden : Bool
  incl : List Pat
  ignore : List Pat
  minAge : Int
  follow : Bool
  deriving Repr

/-- store/local.go `AddStandardIgnore`: the lock extension and the disable marker -/
def addStandardIgnore (ignore : List Pat) : List Pat :=
  ignore ++ [⟨.suf, lockExt⟩, ⟨.seg, disabledName⟩]

/-- one entry of `SourceConf.Tags` as far as scanning and clean-up care -/
structure TagConf where
  method : String
  pat : Option Pat
  delete : Bool
  delay : Int
  deriving Repr

def methodHTTP : String := "http"

/-- main/client.go `setDefaults`, the tag loop: tags BEFORE the first pattern-less (default)
    tag get the HTTP method when they name none; the loop stops at the default tag, so later
    tags keep an empty method.  The bool says whether a default tag was seen. -/
def defaultMethods : List TagConf → List TagConf × Bool
  | [] => ([], false)
  | t :: ts =>
    match t.pat with
    | none => (t :: ts, true)
    | some _ =>
      let t' := if t.method == "" then { t with method := methodHTTP } else t
      let r := defaultMethods ts
      (t' :: r.1, r.2)

/-- `setDefaults`: a default tag is appended when there is none -/
def setDefaultTags (tags : List TagConf) : List TagConf :=
  let r := defaultMethods tags
  if r.2 then r.1 else r.1 ++ [⟨methodHTTP, none, false, 0⟩]

/-- main/client.go `init`, the loop over `c.conf.Tags`: the pattern of every tag whose
    method is not HTTP becomes an ignore pattern of the store -/
def nonHttpPats : List TagConf → List Pat
  | [] => []
  | t :: ts =>
    match t.pat with
    | some p => if t.method == methodHTTP then nonHttpPats ts else p :: nonHttpPats ts
    | none => nonHttpPats ts

def PatKind.letter : PatKind → String
  | .pre => "p" | .suf => "s" | .inf => "i" | .exact => "x" | .seg => "g"

/-- a canonical text for a pattern; stands for `Regexp.String()`, which main uses as the tag
    name (the translation from literal shape to regexp text is injective; the unanchored
    empty literal has the empty text, like the default tag's name) -/
def Pat.name (p : Pat) : String :=
  match p.kind with
  | .inf => if p.lit == "" then "" else "i:" ++ p.lit
  | k => k.letter ++ ":" ++ p.lit

/-- client.FileTag as built by `init`: Name = text of the pattern, "" for the default tag -/
structure Tag where
  name : String
  delete : Bool
  delay : Int
  deriving Repr

def tagName : Option Pat → String
  | some p => p.name
  | none => ""

/-- main/client.go `clientApp.init`: store settings and client tags from the source
    configuration -/
def configure (hidden follow : Bool) (minAge : Int) (incl ignore : List Pat)
    (tags : List TagConf) : StoreConf × List Tag :=
  let tags' := setDefaultTags tags
  ({ includeHidden := hidden, incl := incl,
     ignore := addStandardIgnore ignore ++ nonHttpPats tags',
     minAge := minAge, follow := follow },
   tags'.map (fun t => ⟨tagName t.pat, t.delete, t.delay⟩))

/-- store/local.go `shouldIgnore(relPath, isDir)`; `base` is `filepath.Base(relPath)` -/
def shouldIgnore (c : StoreConf) (rel base : String) (isDir : Bool) : Bool :=
  if !c.includeHidden && rel != "" && hiddenName base then true
  else if c.ignore.any (·.test rel) then true
  else if !isDir && !c.incl.isEmpty then !(c.incl.any (·.test rel))
  else false

/-! ## The directory tree -/

/-- A node of the outgoing directory as the operating system presents it.
    `linkFile`: symbolic link (own mtime `lmtime`, relative or absolute target) to a regular
    file of the given size and mtime that lives outside the root; `linkDir`: link to a
    directory outside the root with the given content; `linkLoop`: link to a directory that
    is an ancestor of the link (already in `Walk`'s history when reached); `linkDead`:
    link whose target does not exist. -/
inductive Node where
  | file (name : String) (size mtime : Int)
  | dir (name : String) (kids : List Node)
  | linkFile (name : String) (lmtime : Int) (rel : Bool) (size mtime : Int)
  | linkDir (name : String) (lmtime : Int) (rel : Bool) (kids : List Node)
  | linkLoop (name : String) (lmtime : Int) (rel : Bool)
  | linkDead (name : String) (lmtime : Int) (rel : Bool)
  deriving Repr

def Node.name : Node → String
  | .file n _ _ => n
  | .dir n _ => n
  | .linkFile n _ _ _ _ => n
  | .linkDir n _ _ _ => n
  | .linkLoop n _ _ => n
  | .linkDead n _ _ => n

/-- what a scan returns per file: relative name, size and mtime (sts.File) -/
structure Found where
  segs : List String
  size : Int
  mtime : Int
  deriving DecidableEq, Repr

def Found.name (f : Found) : String := relStr f.segs

/-- store/local.go `handleNode`, the branch for a node that is not a directory: ignore
    rules, the age of `ageT` measured against the scan's start, then the caller's filter. -/
def leaf (c : StoreConf) (now : Int) (allow : Found → Bool) (segs : List String) (base : String)
    (ageT size mtime : Int) : List Found :=
  if shouldIgnore c (relStr segs) base false then []
  else if now - ageT < c.minAge then []
  else if allow ⟨segs, size, mtime⟩ then [⟨segs, size, mtime⟩] else []

mutual
/-- fileutil `walk` + store `handleNode` + `newLocalFile` for one directory entry below
    `pre` (REPAIRED code: a relative link target is resolved against the link's directory,
    a dangling link is skipped).
    * regular file: `leaf` with its own mtime;
    * directory: pruned when `shouldIgnore(rel, true)`, else its entries are walked;
    * link to a file: with FollowSymlinks the walk sees the target's info (age by the
      target's mtime); without, `handleNode` sees the link (age by the LINK's mtime) and
      `newLocalFile` replaces size and mtime by the target's;
    * link to a directory: walked like a directory under the link's name with
      FollowSymlinks; otherwise `newLocalFile` answers SkipDir and nothing is returned;
    * link to an ancestor: `walk` stops at its history check (or SkipDir without following);
    * dangling link: skipped (`EvalSymlinks` fails / stat says not-exist). -/
def walkNode (c : StoreConf) (now : Int) (allow : Found → Bool) (pre : List String) :
    Node → List Found
  | .file n sz mt => leaf c now allow (pre ++ [n]) n mt sz mt
  | .dir n kids =>
    if shouldIgnore c (relStr (pre ++ [n])) n true then []
    else walkList c now allow (pre ++ [n]) kids
  | .linkFile n lmt _ sz mt =>
    leaf c now allow (pre ++ [n]) n (if c.follow then mt else lmt) sz mt
  | .linkDir n _ _ kids =>
    if c.follow then
      if shouldIgnore c (relStr (pre ++ [n])) n true then []
      else walkList c now allow (pre ++ [n]) kids
    else []
  | .linkLoop _ _ _ => []
  | .linkDead _ _ _ => []
/-- the loop over `Readdir` in fileutil `walk` -/
def walkList (c : StoreConf) (now : Int) (allow : Found → Bool) (pre : List String) :
    List Node → List Found
  | [] => []
  | k :: ks => walkNode c now allow pre k ++ walkList c now allow pre ks
end

/-- `os.Lstat(Root/.disabled)` succeeds -/
def hasDisabled (kids : List Node) : Bool := kids.any (fun k => k.name == disabledName)

/-- store/local.go `Local.Scan(shouldAllow)` on the content `kids` of the root (REPAIRED:
    the root directory itself is not subjected to hidden/ignore rules). -/
def storeScan (c : StoreConf) (now : Int) (allow : Found → Bool) (kids : List Node) : List Found :=
  if hasDisabled kids then [] else walkList c now allow [] kids

/-! ### the code before the repairs (for the witnesses only) -/

mutual
/-- `walkNode` as the code was: without FollowSymlinks a link with a relative target is
    stat-ed relative to the working directory (modelled as: fails), a dangling link fails
    too, and either failure aborts the walk (`none`). -/
def walkNodeOrig (c : StoreConf) (now : Int) (allow : Found → Bool) (pre : List String) :
    Node → Option (List Found)
  | .file n sz mt => some (leaf c now allow (pre ++ [n]) n mt sz mt)
  | .dir n kids =>
    if shouldIgnore c (relStr (pre ++ [n])) n true then some []
    else walkListOrig c now allow (pre ++ [n]) kids
  | .linkFile n lmt rel sz mt =>
    if c.follow then some (leaf c now allow (pre ++ [n]) n mt sz mt)
    else if shouldIgnore c (relStr (pre ++ [n])) n false then some []
    else if now - lmt < c.minAge then some []
    else if rel then none
    else some (leaf c now allow (pre ++ [n]) n lmt sz mt)
  | .linkDir n lmt rel kids =>
    if c.follow then
      if shouldIgnore c (relStr (pre ++ [n])) n true then some []
      else walkListOrig c now allow (pre ++ [n]) kids
    else if shouldIgnore c (relStr (pre ++ [n])) n false then some []
    else if now - lmt < c.minAge then some []
    else if rel then none
    else some []
  | .linkLoop _ _ _ => some []
  | .linkDead n lmt _ =>
    if c.follow then some []
    else if shouldIgnore c (relStr (pre ++ [n])) n false then some []
    else if now - lmt < c.minAge then some []
    else none
def walkListOrig (c : StoreConf) (now : Int) (allow : Found → Bool) (pre : List String) :
    List Node → Option (List Found)
  | [] => some []
  | k :: ks =>
    match walkNodeOrig c now allow pre k with
    | none => none
    | some a =>
      match walkListOrig c now allow pre ks with
      | none => none
      | some b => some (a ++ b)
end

/-- `Local.Scan` as the code was: `rootPath` is `dir.Root` as main stores it (cleaned, no
    trailing separator), `rootBase` its last element; `handleNode` computed the "relative"
    path of the root as the root path itself and pruned on it.  `none` = the scan failed. -/
def storeScanOrig (c : StoreConf) (now : Int) (allow : Found → Bool) (rootPath rootBase : String)
    (kids : List Node) : Option (List Found) :=
  if hasDisabled kids then some []
  else if shouldIgnore c rootPath rootBase true then some []
  else walkListOrig c now allow [] kids

/-! ## The cache (cache/local.go) and change detection -/

/-- cache/local.go `cacheFile`: key, size, mtime, "has a hash", done -/
structure CEntry where
  segs : List String
  size : Int
  mtime : Int
  hashed : Bool
  done : Bool
  deriving DecidableEq, Repr

/-- `JSON.Get` -/
def cacheGet (cache : List CEntry) (k : List String) : Option CEntry :=
  cache.find? (fun e => e.segs == k)

/-- `JSON.Remove` -/
def cacheRemove (cache : List CEntry) (k : List String) : List CEntry :=
  cache.filter (fun e => e.segs != k)

/-- `JSON.Add` / `add` (REPAIRED: the done mark of a replaced entry is cleared) -/
def cacheAdd (cache : List CEntry) (k : List String) (size mtime : Int) (hashed : Bool) : List CEntry :=
  match cache with
  | [] => [⟨k, size, mtime, hashed, false⟩]
  | e :: es =>
    if e.segs == k then { e with size := size, mtime := mtime, hashed := hashed, done := false } :: es
    else e :: cacheAdd es k size mtime hashed

/-- `add` as the code was: an existing entry keeps its done mark -/
def cacheAddOrig (cache : List CEntry) (k : List String) (size mtime : Int) (hashed : Bool) : List CEntry :=
  match cache with
  | [] => [⟨k, size, mtime, hashed, false⟩]
  | e :: es =>
    if e.segs == k then { e with size := size, mtime := mtime, hashed := hashed } :: es
    else e :: cacheAddOrig es k size mtime hashed

/-- `JSON.Done` -/
def cacheDone (cache : List CEntry) (k : List String) : List CEntry :=
  cache.map (fun e => if e.segs == k then { e with done := true } else e)

/-- client/client.go `includeScannedFile`: zero-length files are skipped; a cached file is
    taken again only when size or mtime differ from the cache entry -/
def includeScanned (cache : List CEntry) (f : Found) : Bool :=
  if f.size == 0 then false
  else
    match cacheGet cache f.segs with
    | some e => e.size != f.size || e.mtime != f.mtime
    | none => true

/-! ## Paths into the tree: Sync, Remove -/

def findKid (kids : List Node) (n : String) : Option Node := kids.find? (fun k => k.name == n)

/-- result of resolving a relative path -/
inductive Look where
  | node (n : Node)
  | noent    -- ENOENT: a component does not exist
  | notdir   -- ENOTDIR: a component that is not the last one is a (link to a) file

/-- what the operating system finds at a relative path, `Lstat` semantics for the last
    component (directory links are followed by the OS whatever FollowSymlinks says; paths
    through `linkLoop` are not modelled and count as not existing) -/
def lookup : List Node → List String → Look
  | _, [] => .noent
  | kids, [n] =>
    match findKid kids n with
    | some k => .node k
    | none => .noent
  | kids, d :: d2 :: ds =>
    match findKid kids d with
    | some (.dir _ ks) => lookup ks (d2 :: ds)
    | some (.linkDir _ _ _ ks) => lookup ks (d2 :: ds)
    | some (.file _ _ _) => .notdir
    | some (.linkFile _ _ _ _ _) => .notdir
    | _ => .noent

/-- outcome of `Local.Sync(cached)` -/
inductive SyncRes where
  | missing   -- error for which IsNotExist holds
  | changed   -- a new file object is returned
  | same      -- nil, nil
  | error     -- another error (SkipDir from a link to a directory, ENOTDIR)
  deriving DecidableEq, Repr

/-- store/local.go `Local.Sync` for a cached entry, given what is found at its path (the link
    meta of a cached link is assumed to be what a scan under the same settings records; the
    harness fills it in that way).
    REPAIRED: with FollowSymlinks the path is stat-ed through links, as the walk did. -/
def syncOf (follow : Bool) (e : CEntry) : Look → SyncRes
  | .noent => .missing
  | .notdir => .error
  | .node (.file _ sz mt) => if mt != e.mtime || sz != e.size then .changed else .same
  | .node (.linkFile _ _ _ sz mt) => if mt != e.mtime || sz != e.size then .changed else .same
  | .node (.dir _ _) => .changed
  | .node (.linkDir _ _ _ _) => if follow then .changed else .error
  | .node (.linkLoop _ _ _) => if follow then .changed else .error
  | .node (.linkDead _ _ _) => .missing

def syncRes (follow : Bool) (tree : List Node) (e : CEntry) : SyncRes :=
  syncOf follow e (lookup tree e.segs)

/-- `Sync` answers an error for which `IsNotExist` holds -/
def isMissing (tree : List Node) (segs : List String) : Bool :=
  match lookup tree segs with
  | .noent => true
  | .node (.linkDead _ _ _) => true
  | _ => false

/-- replace the first entry called `n` -/
def updFirst (n : String) (f : Node → Node) : List Node → List Node
  | [] => []
  | k :: ks => if k.name == n then f k :: ks else k :: updFirst n f ks

/-- the tree after `os.Remove(Root/segs)` succeeded -/
def removeAt : List Node → List String → List Node
  | kids, [] => kids
  | kids, [n] => kids.eraseP (fun k => k.name == n)
  | kids, d :: d2 :: ds =>
    updFirst d (fun k =>
      match k with
      | .dir n ks => .dir n (removeAt ks (d2 :: ds))
      | .linkDir n l r ks => .linkDir n l r (removeAt ks (d2 :: ds))
      | k => k) kids

/-- store/local.go `Local.Remove`: `os.Remove` of the path; not-exist is success; a
    directory that is not empty, or a path through a file, is an error (`none`) -/
def storeRemove (tree : List Node) (segs : List String) : Option (List Node) :=
  match lookup tree segs with
  | .node (.dir _ (_ :: _)) => none
  | .notdir => none
  | _ => some (removeAt tree segs)

/-- can the file be opened and read (hashing succeeds) -/
def readable (tree : List Node) (segs : List String) : Bool :=
  match lookup tree segs with
  | .node (.file _ _ _) => true
  | .node (.linkFile _ _ _ _ _) => true
  | _ => false

/-! ## Broker.scan() -/

/-- the part of client.Conf that the scan uses besides store and cache: the tags and the
    Tagger (an external function: relative name to tag name) -/
structure BConf where
  tags : List Tag
  tagger : String → String

/-- `broker.tagMap[name]` as `Start` fills it: a later tag of the same name wins -/
def getTag (tags : List Tag) (name : String) : Option Tag :=
  tags.foldl (fun r t => if t.name == name then some t else r) none

/-- client/client.go `canDelete` (with `cleanSome` from `Start`) -/
def canDelete (b : BConf) (now : Int) (e : CEntry) : Bool :=
  if !(b.tags.any (·.delete)) then false
  else
    match getTag b.tags (b.tagger (relStr e.segs)) with
    | some t =>
      if t.delete then
        if t.delay == 0 then true else decide (now - e.mtime > t.delay)
      else false
    | none => false

/-- the harness's Tagger over the configured tags (given with their patterns): the name of
    the first tag whose pattern matches, else "" (the default tag's name) -/
def firstTag (tags : List (Option Pat)) (name : String) : String :=
  match tags.find? (fun t => match t with | some p => p.test name | none => false) with
  | some t => tagName t
  | none => ""

structure SState where
  tree : List Node
  cache : List CEntry
  deriving Repr

/-- state of the clean-up loop: tree, cache, the stragglers (entries without a hash), and
    the log of the `Store.Remove` calls that succeeded -/
structure CleanAcc where
  tree : List Node
  cache : List CEntry
  strag : List (List String)
  removed : List (List String)

/-- one iteration of the clean-up loop of `scan()` (REPAIRED: `Sync` before `Remove`; a
    changed file, or one that cannot be examined, is left alone; a file that is already
    gone is still purged from the cache) -/
def cleanStep (follow : Bool) (b : BConf) (now : Int) (acc : CleanAcc) (e : CEntry) : CleanAcc :=
  if !e.hashed then { acc with strag := acc.strag ++ [e.segs] }
  else if e.done && canDelete b now e then
    match syncRes follow acc.tree e with
    | .changed => acc
    | .error => acc
    | _ =>
      match storeRemove acc.tree e.segs with
      | none => acc
      | some t' => { acc with tree := t', cache := cacheRemove acc.cache e.segs,
                              removed := acc.removed ++ [e.segs] }
  else acc

/-- the loop as the code was: the path of a done and deletable entry is removed unseen -/
def cleanStepOrig (_follow : Bool) (b : BConf) (now : Int) (acc : CleanAcc) (e : CEntry) : CleanAcc :=
  if !e.hashed then { acc with strag := acc.strag ++ [e.segs] }
  else if e.done && canDelete b now e then
    match storeRemove acc.tree e.segs with
    | none => acc
    | some t' => { acc with tree := t', cache := cacheRemove acc.cache e.segs,
                            removed := acc.removed ++ [e.segs] }
  else acc

/-- `cache.Iterate` over a snapshot of the entries -/
def cleanup (follow : Bool) (b : BConf) (now : Int) (s : SState) : CleanAcc :=
  s.cache.foldl (cleanStep follow b now) ⟨s.tree, s.cache, [], []⟩

def cleanupOrig (follow : Bool) (b : BConf) (now : Int) (s : SState) : CleanAcc :=
  s.cache.foldl (cleanStepOrig follow b now) ⟨s.tree, s.cache, [], []⟩

/-- the stuck-file sweep at the head of `scan()`: entries older than the previous sweep whose
    file does not exist anymore leave the cache -/
def sweep (follow : Bool) (tree : List Node) (stuck : Int) (cache : List CEntry) : List CEntry :=
  cache.filter (fun e => !(decide (e.mtime < stuck) && syncRes follow tree e == .missing))

/-- an element of `wrapped`: a file found by the store scan, or a straggler from the cache -/
inductive Wrapped where
  | scanned (f : Found)
  | strag (segs : List String)

def Wrapped.segs : Wrapped → List String
  | .scanned f => f.segs
  | .strag s => s

/-- the cache update loop after hashing, for one element: a file that cannot be read has no
    hash; if `Sync` says it does not exist it leaves the cache, otherwise it is (re)added.
    `add` is `cacheAdd` (or `cacheAddOrig`). -/
def updateStep (add : List CEntry → List String → Int → Int → Bool → List CEntry)
    (tree : List Node) (cache : List CEntry) (w : Wrapped) : List CEntry :=
  let ok := readable tree w.segs
  if !ok && isMissing tree w.segs then cacheRemove cache w.segs
  else
    match w with
    | .scanned f => add cache f.segs f.size f.mtime ok
    | .strag s =>
      match cacheGet cache s with
      | some e => add cache s e.size e.mtime ok
      | none => cache

/-- `Broker.scan()`; `stuck = some t`: the sweep runs with `stuckSince = t`.  Result: new
    state and the names handed on for queueing (`ready`, in order, duplicates kept). -/
def brokerScanWith (clean : Bool → BConf → Int → SState → CleanAcc)
    (add : List CEntry → List String → Int → Int → Bool → List CEntry)
    (sc : StoreConf) (b : BConf) (now : Int) (stuck : Option Int) (s : SState) :
    SState × List (List String) :=
  let cache0 := match stuck with
    | some t => sweep sc.follow s.tree t s.cache
    | none => s.cache
  let files := storeScan sc now (includeScanned cache0) s.tree
  let acc := clean sc.follow b now ⟨s.tree, cache0⟩
  let wrapped := files.map Wrapped.scanned ++ acc.strag.map Wrapped.strag
  let cache2 := wrapped.foldl (updateStep add acc.tree) acc.cache
  (⟨acc.tree, cache2⟩, (wrapped.filter (fun w => readable acc.tree w.segs)).map Wrapped.segs)

def brokerScan := brokerScanWith cleanup cacheAdd
def brokerScanOrig := brokerScanWith cleanupOrig cacheAddOrig

end Sts
