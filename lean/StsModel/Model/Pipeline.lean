/-
  Pipeline — the sender (`client.Broker`, client/client.go) restricted to its runtime
  choreography: the eight stage goroutine groups of `Broker.Start`, the bounded channels
  between them, the stop request and `Start`'s own wait/close sequence (property C16).

  Items are anonymous tokens. The unit of counting is a *file* (one chunk per file; the
  multi-chunk case only matters for the orphan fault, see `xmitOrphan`). Positions:

    env → scanBatch → chScanned(1 batch) → queue → [startQueue holds 1] → chQueued(2T)
        → binHold (payload being packed) → parts (files inside payloads that are somewhere
          between chTransmit, the T senders, chTransmitted and the tracker's unpack loop;
          the payloads themselves are counted per position) → progReady (tracker's
          `progress` map) → chValidate(2T) → poll (validator's `poll` map)
        → done | (negative verdict) [validator holds 1] → chRetry(2T) → [retry goroutine holds 1]
        → chScanned …

  Thread pools (T = Conf.Threads goroutines of startRetry / startSend) are counted per
  program position. Every action is one atomic step of one goroutine (a channel operation,
  a decision on the stop flags, one call of an external component). A stop check and the
  operation that follows it are merged into one action: an operation whose effect does not
  depend on the stop flag commutes with the arrival of the stop request, so no interleaving
  is lost. The timed helpers `sendCh` / `recvCh` (select on the channel and a one-second
  timer, on expiry re-check the predicate) give up only when the channel stayed full /
  empty for the whole grace: the abort actions are enabled exactly when the channel is
  full / empty and the predicate holds.

  Faults (a failed transmission, a failed or negative poll, a changed file, a failed
  recovery request, the scanner's timer winning the race against a pending stop) consume
  one unit of `budget`.

  The model describes the code after two repairs of `startTrack` that this property's
  end-to-end runs and proofs led to (`Cfg.trackRecheck`, `Cfg.dropOrphans`); with the flags
  off it describes the code before them, and Props/C16.lean proves that this code deadlocks
  (`late_forward_blocks_graceful_stop`, `orphan_blocks_graceful_stop`).

  Core Lean only.
-/
import StsModel.Model.PipelineFacts

namespace Sts.Pipeline

/-- `Broker.stop` / `Broker.stopGraceful` (client.go, stop goroutine of `Start`). -/
inductive Stop
  | none | graceful | now
  deriving DecidableEq, Repr

structure Cfg where
  /-- `Conf.Threads` -/
  threads : Nat
  /-- how many queued files `queue.Tagged.Pop` may withhold (`last-delay` > 0: the last file
      of a group that is younger than the delay); 0 = hypothesis `NoLastDelay` -/
  hold : Nat := 0
  /-- whether the orphan fault S14 can happen (multi-chunk files that change while being sent) -/
  orphan : Bool := false
  /-- `startTrack` drops the incomplete entries of `progress` once its input is closed
      (the repair `fix: tracker waits forever for a file whose parts were dropped`); `false`
      describes the code before the repair -/
  dropOrphans : Bool := true
  /-- after its `LOOP`, `startTrack` returns when `progress` became empty and its input is closed
      (the repair `fix: tracker blocks forever after handing on its last files …`); `false`
      describes the code before the repair: it goes on to `select` on a nil channel and a nil timer -/
  trackRecheck : Bool := true
  deriving DecidableEq, Repr

/-- `startScan`: inside `scan()`, inside `sendCh(shouldStopNow, chScanned, found)`, in the
    `select` on `chStop` / `time.After(ScanDelay)`, returned. -/
inductive ScanPc
  | scanning | sendBatch | waitDelay | done
  deriving DecidableEq, Repr

/-- `startQueue`: in the `select` (input / 1 ms timer), inside `sendCh(shouldStopNow, chQueued, next)`, returned. -/
inductive QPc
  | sel | send | done
  deriving DecidableEq, Repr

/-- `startBin`: in the `select` (input / 1 s timer when a payload is open), inside the `sendCh`
    of a full or timed-out payload, inside the `sendCh` after the input closed, returned. -/
inductive BinPc
  | sel | send | finalSend | done
  deriving DecidableEq, Repr

/-- `startTrack`: at the loop head (before the stop check and the `len(progress)` check), in the
    `LOOP` that hands complete entries to `chValidate` (entered with a non-empty `progress`), in
    the receiving `select` with the one-second timer (`progress` was not empty after the `LOOP`),
    in the receiving `select` without timer, in the loop over the parts of a received payload,
    returned. -/
inductive TrPc
  | head | fwd | polling | blocked | unpack | done
  deriving DecidableEq, Repr

/-- `startValidate`: at the loop head (also: polling while `poll` is not empty), blocked in the
    `select` without timer, processing the verdicts of one poll answer (before `Cache.Persist`),
    inside `finish`'s `sendCh(shouldStop, chRetry, file)`, returned. -/
inductive VaPc
  | head | blocked | batch | hand | done
  deriving DecidableEq, Repr

/-! Numeric codes of the enumerations: the rank of a program position in the termination
    measure (positions later in a stage's life have smaller codes; `done` is 0). -/
def Stop.code : Stop → Nat | .none => 0 | .graceful => 1 | .now => 2
def ScanPc.code : ScanPc → Nat | .scanning => 3 | .sendBatch => 2 | .waitDelay => 1 | .done => 0
def QPc.code : QPc → Nat | .sel => 4 | .send => 4 | .done => 0
def BinPc.code : BinPc → Nat | .sel => 3 | .send => 2 | .finalSend => 1 | .done => 0
def TrPc.code : TrPc → Nat | .unpack => 5 | .head => 4 | .fwd => 3 | .polling => 2 | .blocked => 1 | .done => 0
def VaPc.code : VaPc → Nat | .batch => 4 | .hand => 3 | .head => 2 | .blocked => 1 | .done => 0

/-- The tail of `Broker.Start` (client.go 164-187). Tie T3: `Generated.startSequence` must be
    this list (`close_order_matches`). The model *interprets* this list (`startStep`). -/
def startSequence : List StartStep := [
  .wait .scanned, .wait .failed, .close .chScanned,
  .wait .queued, .close .chQueued,
  .wait .transmit, .close .chTransmit,
  .wait .transmitted, .close .chTransmitted,
  .wait .validate, .close .chValidate, .close .chStats, .wait .stats,
  .wait .validated, .close .chRetry,
  .wait .failed ]

structure State where
  cfg : Cfg
  stop : Stop
  /-- remaining fault / lost-race events -/
  budget : Nat
  /-- ghost: fault events so far -/
  faults : Nat
  /-- files in the source directory not yet seen by a scan or by `recover()` -/
  env : Nat
  /-- ghost: files in batches handed on by `recover()` and by completed scans -/
  found : Nat
  -- Broker.Start
  /-- `Start` is still inside `recover()`; the stages are not started yet -/
  recovering : Bool
  /-- `Start` returned at line 127 (`shouldStopNow` after `recover()`) -/
  earlyRet : Bool
  /-- index of the next statement of `startSequence` -/
  startPos : Nat
  -- closed flags of the channels
  clScanned : Bool
  clQueued : Bool
  clRetry : Bool
  clTransmit : Bool
  clTransmitted : Bool
  clStats : Bool
  clValidate : Bool
  -- channel contents
  /-- files in the one buffered batch of `chScanned` (capacity 1 batch); 0 = empty -/
  chScanned : Nat
  chQueued : Nat
  chRetry : Nat
  /-- payloads in `chTransmit` -/
  chTransmit : Nat
  /-- payloads in `chTransmitted` -/
  chTransmitted : Nat
  chStats : Nat
  chValidate : Nat
  -- startScan
  scanPc : ScanPc
  scanBatch : Nat
  -- startRetry × T
  rtRecv : Nat
  rtHold : Nat
  rtDone : Nat
  -- startQueue
  qPc : QPc
  /-- local `in == nil` (input seen closed) -/
  qInNil : Bool
  /-- local `block` (last `Pop()` returned nil: wait on the input only) -/
  qBlock : Bool
  /-- chunks in `Conf.Queue` -/
  queue : Nat
  /-- the popped chunk `next` held while in `sendCh` (1 iff `qPc = send`) -/
  qHold : Nat
  -- startBin
  binPc : BinPc
  /-- parts in the payload being packed (0: `payload == nil`) -/
  binHold : Nat
  -- startSend × T: goroutines per position
  /-- blocked in `payload, ok = <-in` -/
  sdRecv : Nat
  /-- at the head of the retry loop, holding a payload -/
  sdXmit : Nat
  /-- in `stat(payload)`: the bare `chStats <- payload` -/
  sdStat : Nat
  /-- in `sendCh(shouldStopNow, chTransmitted, payload)` -/
  sdOut : Nat
  /-- in `handleSendError` after `Split(n)`: `stat` of the confirmed prefix, holding prefix and remainder -/
  sdHStat : Nat
  /-- in `handleSendError`: `sendCh` of the confirmed prefix, holding prefix and remainder -/
  sdHOut : Nat
  sdDone : Nat
  /-- files inside all payloads between `chTransmit` and the tracker -/
  parts : Nat
  /-- payloads abandoned by goroutines that returned on an immediate stop -/
  deadPl : Nat
  -- startStats
  stDone : Bool
  -- startTrack
  trPc : TrPc
  trInNil : Bool
  /-- parts the payload being unpacked still owes: 1 from the receipt of a payload until its
      first part was processed, else 0 (a payload has at least one part) -/
  trOwe : Nat
  /-- complete entries of `progress` (sent ≥ size) not yet handed to `chValidate` -/
  progReady : Nat
  /-- entries of `progress` that can never complete (S14) -/
  orphan : Nat
  -- startValidate
  vaPc : VaPc
  vaInNil : Bool
  /-- `Cache.Done` was called since the last `Cache.Persist` -/
  dirty : Bool
  poll : Nat
  /-- the file `finish` is handing to `chRetry` (1 iff `vaPc = hand`) -/
  vaHold : Nat
  -- sinks
  /-- files marked done in the cache (`finish`, verdict passed / waiting) -/
  done : Nat
  /-- files with a negative verdict that were not handed back for a retry -/
  neg : Nat
  /-- files dropped because they changed or vanished (picked up by a later scan) -/
  changed : Nat
  /-- files abandoned in flight by an immediate stop -/
  lost : Nat
  /-- files of a recovery batch dropped because `recover()` returned an error -/
  recLost : Nat
  deriving DecidableEq, Repr

/-- State at the call of `Start`: `files` files to be found, `budget` fault events. -/
def init (c : Cfg) (files budget : Nat) : State :=
  { cfg := c, stop := .none, budget := budget, faults := 0, env := files, found := 0,
    recovering := true, earlyRet := false, startPos := 0,
    clScanned := false, clQueued := false, clRetry := false, clTransmit := false,
    clTransmitted := false, clStats := false, clValidate := false,
    chScanned := 0, chQueued := 0, chRetry := 0, chTransmit := 0, chTransmitted := 0,
    chStats := 0, chValidate := 0,
    scanPc := .scanning, scanBatch := 0,
    rtRecv := c.threads, rtHold := 0, rtDone := 0,
    qPc := .sel, qInNil := false, qBlock := false, queue := 0, qHold := 0,
    binPc := .sel, binHold := 0,
    sdRecv := c.threads, sdXmit := 0, sdStat := 0, sdOut := 0, sdHStat := 0, sdHOut := 0, sdDone := 0,
    parts := 0, deadPl := 0,
    stDone := false,
    trPc := .head, trInNil := false, trOwe := 0, progReady := 0, orphan := 0,
    vaPc := .head, vaInNil := false, dirty := false, poll := 0, vaHold := 0,
    done := 0, neg := 0, changed := 0, lost := 0, recLost := 0 }

/-- capacity of the channels made with `Threads*2` -/
def cap (s : State) : Nat := s.cfg.threads * 2

/-- the stages run: `recover()` is over and `Start` did not return early -/
def running (s : State) : Prop := s.recovering = false ∧ s.earlyRet = false

/-- `Start` has returned (the `done` signal is being sent) -/
def returned (s : State) : Prop :=
  s.earlyRet = true ∨ (s.recovering = false ∧ s.startPos = startSequence.length)

instance (s : State) : Decidable (running s) := by unfold running; infer_instance
instance (s : State) : Decidable (returned s) := by unfold returned; infer_instance

/-- payloads other than the one the tracker is unpacking; each holds at least one part -/
def others (s : State) : Nat :=
  s.chTransmit + s.sdXmit + s.sdStat + s.sdOut + 2 * s.sdHStat + 2 * s.sdHOut + s.chTransmitted + s.deadPl

/-- `wgX.Wait()` returns -/
def groupDone (s : State) : WG → Prop
  | .scanned => s.scanPc = .done
  | .failed => s.rtDone = s.cfg.threads
  | .queued => s.qPc = .done
  | .transmit => s.binPc = .done
  | .transmitted => s.sdDone = s.cfg.threads
  | .stats => s.stDone = true
  | .validate => s.trPc = .done
  | .validated => s.vaPc = .done

instance (s : State) (g : WG) : Decidable (groupDone s g) := by
  cases g <;> unfold groupDone <;> infer_instance

/-- `close(broker.chX)` -/
def closeChan (s : State) : Chan → State
  | .chStop => s
  | .chScanned => { s with clScanned := true }
  | .chQueued => { s with clQueued := true }
  | .chRetry => { s with clRetry := true }
  | .chTransmit => { s with clTransmit := true }
  | .chTransmitted => { s with clTransmitted := true }
  | .chStats => { s with clStats := true }
  | .chValidate => { s with clValidate := true }

inductive Action
  -- environment: the value sent on `stop` (app.go stopClients), read by the stop goroutine
  | stopGraceful | stopNow
  -- Broker.Start / recover()
  | recoverFind | recoverFail | recoverAbortErr | recoverDone | startStep
  -- startScan
  | scanFind | scanDone | scanDoneNil | scanSend | scanAbort | scanExitStop | scanAgain
  -- startRetry
  | retryRecv | retryExitClosed | retryExitStop | retryDrop | retrySend | retryAbort
  -- startQueue
  | queueRecv | queueSeeClosed | queuePop | queuePopNil | queueSend | queueAbort
  -- startBin
  | binRecvMore | binRecvFull | binRecvExitNow | binSeeClosed | binTimer | binSend | binAbort
  -- startSend / handleSendError / stat
  | sendRecv | sendSeeClosed | sendExitNow | xmitOk | xmitFailNone | xmitFailAll | xmitFailSplit
  | xmitDropChanged | xmitDropLast | xmitOrphan | xmitOrphanLast
  | statSend | outSend | outAbort | hStatSend | hOutSend | hOutAbort
  -- startStats
  | statsRecv | statsExit
  -- startTrack
  | trackExitNow | trackExitEmpty | trackBlock | trackCheck | trackForward | trackTickForward | trackToSelect
  | trackRecv | trackSeeClosed | trackPart | trackUnpackDone | trackDropOrphans
  -- startValidate / finish
  | valExitNow | valExitEmpty | valBlock | valRecv | valSeeClosed | valPass | valFail | valNotFound
  | valPersist | valHandSend | valHandAbort
  deriving DecidableEq, Repr

def Action.all : List Action := [
  .stopGraceful, .stopNow,
  .recoverFind, .recoverFail, .recoverAbortErr, .recoverDone, .startStep,
  .scanFind, .scanDone, .scanDoneNil, .scanSend, .scanAbort, .scanExitStop, .scanAgain,
  .retryRecv, .retryExitClosed, .retryExitStop, .retryDrop, .retrySend, .retryAbort,
  .queueRecv, .queueSeeClosed, .queuePop, .queuePopNil, .queueSend, .queueAbort,
  .binRecvMore, .binRecvFull, .binRecvExitNow, .binSeeClosed, .binTimer, .binSend, .binAbort,
  .sendRecv, .sendSeeClosed, .sendExitNow, .xmitOk, .xmitFailNone, .xmitFailAll, .xmitFailSplit,
  .xmitDropChanged, .xmitDropLast, .xmitOrphan, .xmitOrphanLast,
  .statSend, .outSend, .outAbort, .hStatSend, .hOutSend, .hOutAbort,
  .statsRecv, .statsExit,
  .trackExitNow, .trackExitEmpty, .trackBlock, .trackCheck, .trackForward, .trackTickForward, .trackToSelect,
  .trackRecv, .trackSeeClosed, .trackPart, .trackUnpackDone, .trackDropOrphans,
  .valExitNow, .valExitEmpty, .valBlock, .valRecv, .valSeeClosed, .valPass, .valFail, .valNotFound,
  .valPersist, .valHandSend, .valHandAbort ]

/-- the tracker is in its receiving `select` (with or without the one-second timer) -/
def trAtSelect (s : State) : Prop :=
  s.trPc = .blocked ∨ s.trPc = .polling

/-- the repaired tracker is about to drop its orphan entries (it does so before anything else) -/
def trDrops (s : State) : Prop :=
  s.cfg.dropOrphans = true ∧ s.trInNil = true ∧ 0 < s.orphan

/-- the validator is in its receiving `select` -/
def vaAtSelect (s : State) : Prop :=
  s.vaPc = .blocked ∨ (s.vaPc = .head ∧ s.stop ≠ .now ∧ 0 < s.poll)

/-- the validator may process a verdict: it starts a poll round (loop head, no immediate stop,
    something to poll) or is inside the answer of the current round -/
def vaCanJudge (s : State) : Prop :=
  (s.vaPc = .head ∧ s.stop ≠ .now) ∨ s.vaPc = .batch

/-- Enabledness of an action. -/
def guard (s : State) : Action → Prop
  /- environment -/
  | .stopGraceful => s.stop = .none ∧ ¬ returned s
  | .stopNow => s.stop = .none ∧ ¬ returned s
  /- `recover()` (client.go 283-486): every loop re-checks `shouldStopNow` -/
  | .recoverFind => s.recovering = true ∧ s.stop ≠ .now ∧ 0 < s.env
  | .recoverFail => s.recovering = true ∧ s.stop ≠ .now ∧ 0 < s.budget
  | .recoverAbortErr => s.recovering = true ∧ s.stop ≠ .now ∧ 0 < s.budget
  | .recoverDone => s.recovering = true
  | .startStep => running s ∧
      match startSequence[s.startPos]? with
      | some (.wait g) => groupDone s g
      | some (.close _) => True
      | none => False
  /- `startScan` (488-509), `scan()` (552-675) -/
  | .scanFind => running s ∧ s.scanPc = .scanning ∧ 0 < s.env
  | .scanDone => running s ∧ s.scanPc = .scanning
  | .scanDoneNil => running s ∧ s.scanPc = .scanning ∧ s.stop = .now
  | .scanSend => running s ∧ s.scanPc = .sendBatch ∧ s.chScanned = 0
  | .scanAbort => running s ∧ s.scanPc = .sendBatch ∧ 0 < s.chScanned ∧ s.stop = .now
  | .scanExitStop => running s ∧ s.scanPc = .waitDelay ∧ s.stop ≠ .none
  | .scanAgain => running s ∧ s.scanPc = .waitDelay ∧ (s.stop = .none ∨ 0 < s.budget)
  /- `startRetry` (1294-1357) -/
  | .retryRecv => running s ∧ 0 < s.rtRecv ∧ 0 < s.chRetry
  | .retryExitClosed => running s ∧ 0 < s.rtRecv ∧ s.clRetry = true ∧ s.chRetry = 0
  | .retryExitStop => running s ∧ 0 < s.rtRecv ∧ s.stop ≠ .none ∧ s.chRetry = 0
  | .retryDrop => running s ∧ 0 < s.rtHold
  | .retrySend => running s ∧ 0 < s.rtHold ∧ s.chScanned = 0
  | .retryAbort => running s ∧ 0 < s.rtHold ∧ 0 < s.chScanned ∧ s.stop ≠ .none
  /- `startQueue` (748-793) -/
  | .queueRecv => running s ∧ s.qPc = .sel ∧ s.qInNil = false ∧ 0 < s.chScanned
  | .queueSeeClosed => running s ∧ s.qPc = .sel ∧ s.qInNil = false ∧ s.clScanned = true ∧ s.chScanned = 0
  | .queuePop => running s ∧ s.qPc = .sel ∧ s.qBlock = false ∧ 0 < s.queue
  | .queuePopNil => running s ∧ s.qPc = .sel ∧ s.qBlock = false ∧ s.queue ≤ s.cfg.hold
  | .queueSend => running s ∧ s.qPc = .send ∧ s.chQueued < cap s
  | .queueAbort => running s ∧ s.qPc = .send ∧ cap s ≤ s.chQueued ∧ s.stop = .now
  /- `startBin` (795-871) -/
  | .binRecvMore => running s ∧ s.binPc = .sel ∧ 0 < s.chQueued ∧ s.stop ≠ .now
  | .binRecvFull => running s ∧ s.binPc = .sel ∧ 0 < s.chQueued ∧ s.stop ≠ .now
  | .binRecvExitNow => running s ∧ s.binPc = .sel ∧ 0 < s.chQueued ∧ s.stop = .now
  | .binSeeClosed => running s ∧ s.binPc = .sel ∧ s.clQueued = true ∧ s.chQueued = 0
  | .binTimer => running s ∧ s.binPc = .sel ∧ 0 < s.binHold
  | .binSend => running s ∧ (s.binPc = .send ∨ s.binPc = .finalSend) ∧ s.chTransmit < cap s
  | .binAbort => running s ∧ (s.binPc = .send ∨ s.binPc = .finalSend) ∧ cap s ≤ s.chTransmit ∧ s.stop = .now
  /- `startSend` (873-941), `handleSendError` (992-1038), `stat` (1040-1049) -/
  | .sendRecv => running s ∧ 0 < s.sdRecv ∧ 0 < s.chTransmit
  | .sendSeeClosed => running s ∧ 0 < s.sdRecv ∧ s.clTransmit = true ∧ s.chTransmit = 0
  | .sendExitNow => running s ∧ 0 < s.sdXmit ∧ s.stop = .now
  | .xmitOk => running s ∧ 0 < s.sdXmit ∧ s.stop ≠ .now
  | .xmitFailNone => running s ∧ 0 < s.sdXmit ∧ s.stop ≠ .now ∧ 0 < s.budget
  | .xmitFailAll => running s ∧ 0 < s.sdXmit ∧ s.stop ≠ .now ∧ 0 < s.budget
  | .xmitFailSplit => running s ∧ 0 < s.sdXmit ∧ s.stop ≠ .now ∧ 0 < s.budget ∧ others s + s.trOwe < s.parts
  | .xmitDropChanged => running s ∧ 0 < s.sdXmit ∧ s.stop ≠ .now ∧ 0 < s.budget ∧ others s + s.trOwe < s.parts
  | .xmitDropLast => running s ∧ 0 < s.sdXmit ∧ s.stop ≠ .now ∧ 0 < s.budget ∧ 0 < s.parts ∧
      (others s = 1 ∧ s.trPc ≠ .unpack → s.parts = 1)
  | .xmitOrphan => running s ∧ s.cfg.orphan = true ∧ 0 < s.sdXmit ∧ s.stop ≠ .now ∧ 0 < s.budget ∧
      others s + s.trOwe < s.parts
  | .xmitOrphanLast => running s ∧ s.cfg.orphan = true ∧ 0 < s.sdXmit ∧ s.stop ≠ .now ∧ 0 < s.budget ∧
      0 < s.parts ∧ (others s = 1 ∧ s.trPc ≠ .unpack → s.parts = 1)
  | .statSend => running s ∧ 0 < s.sdStat ∧ s.chStats < cap s
  | .outSend => running s ∧ 0 < s.sdOut ∧ s.chTransmitted < cap s
  | .outAbort => running s ∧ 0 < s.sdOut ∧ cap s ≤ s.chTransmitted ∧ s.stop = .now
  | .hStatSend => running s ∧ 0 < s.sdHStat ∧ s.chStats < cap s
  | .hOutSend => running s ∧ 0 < s.sdHOut ∧ s.chTransmitted < cap s
  | .hOutAbort => running s ∧ 0 < s.sdHOut ∧ cap s ≤ s.chTransmitted ∧ s.stop = .now
  /- `startStats` (1051-1059) -/
  | .statsRecv => running s ∧ s.stDone = false ∧ 0 < s.chStats
  | .statsExit => running s ∧ s.stDone = false ∧ s.clStats = true ∧ s.chStats = 0
  /- `startTrack` (1061-1158). The one-second timer of the `select` only matters when the next
     pass of the loop can do something: `trackExitNow`, `trackTickForward`, `trackDropOrphans`
     stand for "timer, loop head, …". -/
  | .trackExitNow => running s ∧ (s.trPc = .head ∨ s.trPc = .polling) ∧ s.stop = .now
  | .trackExitEmpty => running s ∧ s.trPc = .head ∧ s.stop ≠ .now ∧ s.progReady = 0 ∧ s.orphan = 0 ∧ s.trInNil = true
  | .trackBlock => running s ∧ s.trPc = .head ∧ s.stop ≠ .now ∧ s.progReady = 0 ∧ s.orphan = 0 ∧ s.trInNil = false
  | .trackCheck => running s ∧ s.trPc = .head ∧ s.stop ≠ .now ∧ 0 < s.progReady + s.orphan ∧ ¬ trDrops s
  | .trackForward => running s ∧ s.trPc = .fwd ∧ 0 < s.progReady ∧ s.chValidate < cap s
  | .trackTickForward => running s ∧ s.trPc = .polling ∧ s.stop ≠ .now ∧ ¬ trDrops s ∧ 0 < s.progReady ∧ s.chValidate < cap s
  | .trackToSelect => running s ∧ s.trPc = .fwd ∧ (s.progReady = 0 ∨ cap s ≤ s.chValidate)
  | .trackRecv => running s ∧ trAtSelect s ∧ s.trInNil = false ∧ 0 < s.chTransmitted
  | .trackSeeClosed => running s ∧ trAtSelect s ∧ s.trInNil = false ∧ s.clTransmitted = true ∧ s.chTransmitted = 0
  | .trackPart => running s ∧ s.trPc = .unpack ∧ others s < s.parts
  | .trackUnpackDone => running s ∧ s.trPc = .unpack ∧ s.trOwe = 0 ∧ (others s = 0 → s.parts = 0)
  | .trackDropOrphans => running s ∧ (s.trPc = .head ∨ s.trPc = .polling) ∧ s.stop ≠ .now ∧ trDrops s
  /- `startValidate` (1160-1266), `finish` (1268-1292) -/
  | .valExitNow => running s ∧ s.vaPc = .head ∧ s.stop = .now
  | .valExitEmpty => running s ∧ s.vaPc = .head ∧ s.stop ≠ .now ∧ s.poll = 0 ∧ s.vaInNil = true
  | .valBlock => running s ∧ s.vaPc = .head ∧ s.stop ≠ .now ∧ s.poll = 0 ∧ s.vaInNil = false
  | .valRecv => running s ∧ vaAtSelect s ∧ s.vaInNil = false ∧ 0 < s.chValidate
  | .valSeeClosed => running s ∧ vaAtSelect s ∧ s.vaInNil = false ∧ s.clValidate = true ∧ s.chValidate = 0
  | .valPass => running s ∧ vaCanJudge s ∧ 0 < s.poll
  | .valFail => running s ∧ vaCanJudge s ∧ 0 < s.poll ∧ 0 < s.budget
  | .valNotFound => running s ∧ vaCanJudge s ∧ 0 < s.poll ∧ 0 < s.budget
  | .valPersist => running s ∧ s.vaPc = .batch
  | .valHandSend => running s ∧ s.vaPc = .hand ∧ s.chRetry < cap s
  | .valHandAbort => running s ∧ s.vaPc = .hand ∧ cap s ≤ s.chRetry ∧ s.stop ≠ .none

instance (s : State) : Decidable (trAtSelect s) := by unfold trAtSelect; infer_instance
instance (s : State) : Decidable (trDrops s) := by unfold trDrops; infer_instance
instance (s : State) : Decidable (vaAtSelect s) := by unfold vaAtSelect; infer_instance
instance (s : State) : Decidable (vaCanJudge s) := by unfold vaCanJudge; infer_instance

instance (s : State) (a : Action) : Decidable (guard s a) := by
  cases a <;> unfold guard <;> try infer_instance
  -- startStep
  · cases h : startSequence[s.startPos]? with
    | none => simp only []; infer_instance
    | some x => cases x <;> simp only [] <;> infer_instance

/-- one fault event -/
def fault (s : State) : State := { s with budget := s.budget - 1, faults := s.faults + 1 }

/-- Effect of an action (meaningful when `guard s a`). -/
def apply (s : State) : Action → State
  | .stopGraceful => { s with stop := .graceful }
  | .stopNow => { s with stop := .now }
  /- `recover()`: a file to re-send is appended to `send`; `send` goes into the empty
     1-buffer of chScanned when recover() returns without error (line 134). -/
  | .recoverFind => { s with env := s.env - 1, chScanned := s.chScanned + 1, found := s.found + 1 }
  /- `Recoverer()` failed: back-off, retry. -/
  | .recoverFail => fault s
  /- the poll inside `recover()` failed: "Recovery failed", the batch is dropped. -/
  | .recoverAbortErr => { fault s with recLost := s.recLost + s.chScanned, chScanned := 0 }
  /- line 127: `if broker.shouldStopNow() { return }`, else the eight stages are started. -/
  | .recoverDone =>
      if s.stop = .now then { s with recovering := false, earlyRet := true }
      else { s with recovering := false }
  | .startStep =>
      match startSequence[s.startPos]? with
      | some (.close c) => closeChan { s with startPos := s.startPos + 1 } c
      | _ => { s with startPos := s.startPos + 1 }
  /- `store.Scan` reports one more file -/
  | .scanFind => { s with env := s.env - 1, scanBatch := s.scanBatch + 1 }
  /- `scan()` returns `ready`; `if len(found) > 0 { sendCh(...) }` -/
  | .scanDone => { s with scanPc := if 0 < s.scanBatch then .sendBatch else .waitDelay }
  /- `scan()` returns nil at one of its `shouldStopNow` checks -/
  | .scanDoneNil => { s with scanPc := .waitDelay }
  | .scanSend => { s with chScanned := s.scanBatch, found := s.found + s.scanBatch, scanBatch := 0, scanPc := .waitDelay }
  | .scanAbort => { s with scanPc := .done }
  /- `case <-broker.chStop: return` -/
  | .scanExitStop => { s with scanPc := .done }
  /- `case <-wait:`; after a stop request this is the timer winning the race against the
     pending `chStop` send and counts as a fault -/
  | .scanAgain =>
      if s.stop = .none then { s with scanPc := .scanning } else { fault s with scanPc := .scanning }
  | .retryRecv => { s with chRetry := s.chRetry - 1, rtRecv := s.rtRecv - 1, rtHold := s.rtHold + 1 }
  | .retryExitClosed => { s with rtRecv := s.rtRecv - 1, rtDone := s.rtDone + 1 }
  | .retryExitStop => { s with rtRecv := s.rtRecv - 1, rtDone := s.rtDone + 1 }
  /- "Ignoring missing / changed failed file", or the file cannot be opened -/
  | .retryDrop => { s with rtHold := s.rtHold - 1, rtRecv := s.rtRecv + 1, changed := s.changed + 1 }
  | .retrySend => { s with rtHold := s.rtHold - 1, rtRecv := s.rtRecv + 1, chScanned := 1 }
  | .retryAbort => { s with rtHold := s.rtHold - 1, rtDone := s.rtDone + 1, neg := s.neg + 1 }
  | .queueRecv => { s with queue := s.queue + s.chScanned, chScanned := 0, qBlock := false }
  | .queueSeeClosed =>
      if s.stop = .now then { s with qPc := .done } else { s with qInNil := true, qBlock := false }
  | .queuePop => { s with queue := s.queue - 1, qHold := 1, qPc := .send }
  /- `Pop()` returned nil -/
  | .queuePopNil => if s.qInNil = true then { s with qPc := .done } else { s with qBlock := true }
  | .queueSend => { s with chQueued := s.chQueued + 1, qHold := 0, qPc := .sel }
  | .queueAbort => { s with qPc := .done, qHold := 0, lost := s.lost + 1 }
  | .binRecvMore => { s with chQueued := s.chQueued - 1, binHold := s.binHold + 1 }
  | .binRecvFull => { s with chQueued := s.chQueued - 1, binHold := s.binHold + 1, binPc := .send }
  | .binRecvExitNow => { s with chQueued := s.chQueued - 1, lost := s.lost + 1, binPc := .done }
  | .binSeeClosed =>
      if s.stop = .now then { s with binPc := .done }
      else if 0 < s.binHold then { s with binPc := .finalSend } else { s with binPc := .done }
  | .binTimer => if s.stop = .now then { s with binPc := .done } else { s with binPc := .send }
  | .binSend =>
      { s with chTransmit := s.chTransmit + 1, parts := s.parts + s.binHold, binHold := 0,
               binPc := if s.binPc = .finalSend then .done else .sel }
  | .binAbort => { s with binPc := .done }
  | .sendRecv =>
      if s.stop = .now then
        { s with chTransmit := s.chTransmit - 1, sdRecv := s.sdRecv - 1, sdDone := s.sdDone + 1, deadPl := s.deadPl + 1 }
      else { s with chTransmit := s.chTransmit - 1, sdRecv := s.sdRecv - 1, sdXmit := s.sdXmit + 1 }
  | .sendSeeClosed => { s with sdRecv := s.sdRecv - 1, sdDone := s.sdDone + 1 }
  | .sendExitNow => { s with sdXmit := s.sdXmit - 1, sdDone := s.sdDone + 1, deadPl := s.deadPl + 1 }
  | .xmitOk => { s with sdXmit := s.sdXmit - 1, sdStat := s.sdStat + 1 }
  /- `Transmitter` failed and nothing is confirmed (or `TxRecoverer` failed): try again -/
  | .xmitFailNone => fault s
  /- failed, but all parts are confirmed: `stat`, hand the payload on, next payload -/
  | .xmitFailAll => { fault s with sdXmit := s.sdXmit - 1, sdStat := s.sdStat + 1 }
  /- failed, a proper prefix is confirmed: `Split(n)` -/
  | .xmitFailSplit => { fault s with sdXmit := s.sdXmit - 1, sdHStat := s.sdHStat + 1 }
  /- after a failure: "Ignoring changed file in payload" -/
  | .xmitDropChanged => { fault s with parts := s.parts - 1, changed := s.changed + 1 }
  | .xmitDropLast =>
      { fault s with parts := s.parts - 1, changed := s.changed + 1, sdXmit := s.sdXmit - 1, sdRecv := s.sdRecv + 1 }
  /- the same, for a file whose earlier parts are already in the tracker's `progress` (S14) -/
  | .xmitOrphan => { fault s with parts := s.parts - 1, orphan := s.orphan + 1 }
  | .xmitOrphanLast =>
      { fault s with parts := s.parts - 1, orphan := s.orphan + 1, sdXmit := s.sdXmit - 1, sdRecv := s.sdRecv + 1 }
  | .statSend => { s with chStats := s.chStats + 1, sdStat := s.sdStat - 1, sdOut := s.sdOut + 1 }
  | .outSend => { s with chTransmitted := s.chTransmitted + 1, sdOut := s.sdOut - 1, sdRecv := s.sdRecv + 1 }
  | .outAbort => { s with sdOut := s.sdOut - 1, sdDone := s.sdDone + 1, deadPl := s.deadPl + 1 }
  | .hStatSend => { s with chStats := s.chStats + 1, sdHStat := s.sdHStat - 1, sdHOut := s.sdHOut + 1 }
  | .hOutSend => { s with chTransmitted := s.chTransmitted + 1, sdHOut := s.sdHOut - 1, sdXmit := s.sdXmit + 1 }
  | .hOutAbort => { s with sdHOut := s.sdHOut - 1, sdDone := s.sdDone + 1, deadPl := s.deadPl + 2 }
  | .statsRecv => { s with chStats := s.chStats - 1 }
  | .statsExit => { s with stDone := true }
  | .trackExitNow => { s with trPc := .done }
  | .trackExitEmpty => { s with trPc := .done }
  | .trackBlock => { s with trPc := .blocked }
  /- `len(progress) != 0`: enter the `LOOP` -/
  | .trackCheck => { s with trPc := .fwd }
  | .trackForward => { s with progReady := s.progReady - 1, chValidate := s.chValidate + 1 }
  /- the timer of the `select` fires, loop head, `LOOP`, first entry handed on -/
  | .trackTickForward => { s with progReady := s.progReady - 1, chValidate := s.chValidate + 1, trPc := .fwd }
  /- after the `LOOP`: `wait = nil; if len(progress) > 0 { wait = 1 s } [else if in == nil { return }]`, then the `select` -/
  | .trackToSelect =>
      if 0 < s.progReady + s.orphan then { s with trPc := .polling }
      else if s.cfg.trackRecheck = true ∧ s.trInNil = true then { s with trPc := .done }
      else { s with trPc := .blocked }
  | .trackRecv => { s with chTransmitted := s.chTransmitted - 1, trPc := .unpack, trOwe := 1 }
  | .trackSeeClosed => { s with trInNil := true, trPc := .head }
  | .trackPart => { s with parts := s.parts - 1, progReady := s.progReady + 1, trOwe := 0 }
  | .trackUnpackDone => { s with trPc := .head }
  /- `if in == nil { delete the entries with sent < size }`: they stay not-done in the cache -/
  | .trackDropOrphans => { s with orphan := 0, changed := s.changed + s.orphan, trPc := .head }
  | .valExitNow => { s with vaPc := .done }
  | .valExitEmpty => { s with vaPc := .done }
  | .valBlock => { s with vaPc := .blocked }
  | .valRecv => { s with chValidate := s.chValidate - 1, poll := s.poll + 1, vaPc := .head }
  | .valSeeClosed => { s with vaInNil := true, vaPc := .head }
  /- verdict passed / waiting: `finish` → `Cache.Done` -/
  | .valPass => { s with poll := s.poll - 1, done := s.done + 1, dirty := true, vaPc := .batch }
  /- verdict failed, or not found for the `PollAttempts`-th time: `finish` → hand to retry -/
  | .valFail => { fault s with poll := s.poll - 1, vaHold := 1, vaPc := .hand }
  /- verdict not found (attempts left), or the poll request failed -/
  | .valNotFound => { fault s with vaPc := if s.vaPc = .head then .batch else s.vaPc }
  /- `Cache.Persist()` after the batch -/
  | .valPersist => { s with dirty := false, vaPc := .head }
  | .valHandSend => { s with chRetry := s.chRetry + 1, vaHold := 0, vaPc := .batch }
  | .valHandAbort => { s with neg := s.neg + 1, vaHold := 0, vaPc := .batch }

/-- The transition relation, executable: `none` = the action is not enabled. -/
def step (s : State) (a : Action) : Option State :=
  if guard s a then some (apply s a) else none

/-- The enabled actions. -/
def enabled (s : State) : List Action := Action.all.filter (fun a => decide (guard s a))

/-- Run a list of actions; `none` if one of them is not enabled. -/
def runActions (s : State) : List Action → Option State
  | [] => some s
  | a :: as => match step s a with
    | some s' => runActions s' as
    | none => none

/-- States reachable from a call of `Start` with at least one thread. -/
inductive Reachable : State → Prop
  | init (c : Cfg) (files budget : Nat) (h : 0 < c.threads) : Reachable (init c files budget)
  | step {s s' : State} {a : Action} : Reachable s → step s a = some s' → Reachable s'

end Sts.Pipeline
