/-
  Event semantics of the receiver model: every API call, worker action, environment action,
  crash and crash-inside-an-operation is an event; a run is a list of events from `init`.
  "For every schedule / crash point / history" in the properties is "for every event list".
-/
import StsModel.Model.StageOps

namespace Sts.Stage

/-- events that are an operation of the code (they have a primitive list and can be cut by
    a crash after the k-th durable primitive) -/
inductive OpEv
  | prepare (n : Name) (size : Int) (now : Int)
  | recvOpen (h : Nat) (n : Name)                      -- os.OpenFile(<n>.part) in Receive
  | recvWrite (h : Nat) (beg : Nat) (data : Body) (now : Int)   -- io.Copy through the handle
  | record (n : Name) (m : Meta) (beg fin : Int) (now : Int)    -- locked region of Receive
  | process (n : Name) (now : Int)                     -- a validator takes n from the queue
  | finh (n : Name) (now : Int)                        -- the finalize handler takes n
  | timer (n : Name)                                   -- retry timer of a parked file fires
  | buildCache (frm : Int) (now : Int)                 -- head of Received / GetFileStatus
  | receivedQ (n : Name) (m : Meta)                    -- partReceived's memory effects
  | recover (now : Int) (names : List Name)
  | cleanStrays (now : Int) (names : List Name)
  | cleanWaiting (names : List Name)
  | consume (t : String)                               -- environment: the consumer takes a delivered file
  | corrupt (n : Name) (ext : String) (pos v : Nat)    -- environment: a staged byte is overwritten
deriving Repr

inductive Ev
  | op (o : OpEv)
  | cutOp (k : Nat) (o : OpEv)     -- the process dies after the k-th durable step of `o`
  | crash
deriving Repr

def effects (H : Body → String) (s : State) : OpEv → List Prim
  | .prepare n size now => prepareEffects s n size now
  | .recvOpen h n => (match s.disk.part n with | some i => [Prim.handleOpen h i] | none => [])
  | .recvWrite h beg data now =>
    (match handleIno s.mem h with
     | some i => [Prim.writeIno i beg data now, Prim.handleClose h]
     | none => [])
  | .record n m beg fin now => recordEffects s n m beg fin now
  | .process n now => processEffects H s n now
  | .finh n now => finhEffects s n now
  | .timer n => timerEffects s n
  | .buildCache frm now => buildCacheEffects s frm now
  | .receivedQ n m => receivedEffects s n m
  | .recover now names => recoverEffects H s now names
  | .cleanStrays now names => cleanStraysEffects s now names
  | .cleanWaiting names => cleanWaitingEffects s names
  | .consume t => [Prim.rmFinal t]
  | .corrupt n ext pos v => (match inoOf s.disk n ext with | some i => [Prim.corrupt i pos v] | none => [])

def step (H : Body → String) (s : State) : Ev → State
  | .op o => run s (effects H s o)
  | .cutOp k o => crash (run s (cut k (effects H s o)))
  | .crash => crash s

def runEvs (H : Body → String) (s : State) (evs : List Ev) : State := evs.foldl (step H) s

/-- every state the receiver can be in: any finite history from the empty staging area. -/
def Reachable (H : Body → String) (s : State) : Prop := ∃ evs, s = runEvs H init evs

theorem Reachable.init (H : Body → String) : Reachable H init := ⟨[], rfl⟩

theorem Reachable.step {H : Body → String} {s : State} (h : Reachable H s) (e : Ev) :
    Reachable H (step H s e) := by
  obtain ⟨evs, rfl⟩ := h
  exact ⟨evs ++ [e], by simp [runEvs, List.foldl_append]⟩

/-- induction principle over reachable states -/
theorem Reachable.induction {H : Body → String} {P : State → Prop}
    (h0 : P Stage.init) (hs : ∀ s e, Reachable H s → P s → P (Stage.step H s e))
    {s : State} (h : Reachable H s) : P s := by
  obtain ⟨evs, rfl⟩ := h
  suffices ∀ (l : List Ev) (s0 : State), Reachable H s0 → P s0 → P (runEvs H s0 l) from
    this evs Stage.init (Reachable.init H) h0
  intro l
  induction l with
  | nil => intro s0 _ hp; simpa [runEvs] using hp
  | cons e l ih =>
    intro s0 hr hp
    simp only [runEvs, List.foldl_cons]
    exact ih _ (hr.step e) (hs s0 e hr hp)

/-- `run` over a concatenation -/
theorem run_append (s : State) (ps qs : List Prim) : run s (ps ++ qs) = run (run s ps) qs := by
  simp [run, List.foldl_append]

@[simp] theorem run_nil (s : State) : run s [] = s := rfl
@[simp] theorem run_cons (s : State) (p : Prim) (ps : List Prim) :
    run s (p :: ps) = run (applyPrim s p) ps := rfl

/-- a cut is a prefix -/
theorem cut_prefix (k : Nat) (ps : List Prim) : ∃ qs, ps = cut k ps ++ qs := by
  induction ps generalizing k with
  | nil => exact ⟨[], by simp [cut]⟩
  | cons p ps ih =>
    cases k with
    | zero => exact ⟨p :: ps, by simp [cut]⟩
    | succ k =>
      simp only [cut]
      split
      · obtain ⟨qs, hq⟩ := ih k
        exact ⟨qs, by simp [← hq]⟩
      · obtain ⟨qs, hq⟩ := ih (k + 1)
        exact ⟨qs, by simp [← hq]⟩

/-! ### the finalize handler in two phases (the window between its pre-check and `finalize`)

The events above make the whole of `finalizeHandler`'s loop body one atomic step (`finh`). In the
code it is not: between the handler's decision (cached state read without the file lock,
`isFileReady`, possibly a scan of the receive log) and `finalize`'s locked region any other
operation may run: a newer version of the same name may be received and validated, the
predecessor may be delivered, the cleaner may run. The split semantics adds that window:
`finhDecide n now` runs the decision phase and leaves the item in the handler's hands
(`WState.held`), `finhDo now` runs `finalize` for the held item on the state of THAT moment,
`cutFinhDo k now` is a crash after the k-th durable step of that `finalize`, and `ev e` is any
event of the atomic semantics, executed whether or not an item is held (a crash loses the held
item with the rest of the memory). The handler is one goroutine: while it holds an item a
second `finhDecide` is not enabled (no-op). Allowing the atomic `finh` while an item is held is
an over-approximation (more runs than the code has): theorems about all `WEv` runs cover the code. -/

structure WState where
  st : State := {}
  /-- the item the finalize handler holds between `isFileReady` and `finalize` -/
  held : Option (Name × Entry) := none

inductive WEv
  | ev (e : Ev)
  | finhDecide (n : Name) (now : Int)
  | finhDo (now : Int)
  | cutFinhDo (k : Nat) (now : Int)
deriving Repr

def wstep (H : Body → String) (w : WState) : WEv → WState
  | .ev e =>
    (match e with
     | .op o => { w with st := step H w.st (.op o) }
     | .cutOp k o => { st := step H w.st (.cutOp k o), held := none }
     | .crash => { st := step H w.st .crash, held := none })
  | .finhDecide n now =>
    (match w.held with
     | some _ => w
     | none => { st := run w.st (finhDecideEffects w.st n now),
                 held := (finhPending w.st n now).map (fun e => (n, e)) })
  | .finhDo now =>
    (match w.held with
     | none => w
     | some (n, e) => { st := run w.st (finhDoEffects w.st n e now), held := none })
  | .cutFinhDo k now =>
    (match w.held with
     | none => w
     | some (n, e) => { st := crash (run w.st (cut k (finhDoEffects w.st n e now))), held := none })

def runW (H : Body → String) (w : WState) (evs : List WEv) : WState := evs.foldl (wstep H) w

/-- every state of the split semantics: any finite history from the empty staging area. -/
def ReachableW (H : Body → String) (w : WState) : Prop := ∃ evs, w = runW H {} evs

theorem ReachableW.step {H : Body → String} {w : WState} (h : ReachableW H w) (e : WEv) :
    ReachableW H (wstep H w e) := by
  obtain ⟨evs, rfl⟩ := h
  exact ⟨evs ++ [e], by simp [runW, List.foldl_append]⟩

/-- induction principle over the states of the split semantics -/
theorem ReachableW.induction {H : Body → String} {P : WState → Prop}
    (h0 : P {}) (hs : ∀ w e, ReachableW H w → P w → P (wstep H w e))
    {w : WState} (h : ReachableW H w) : P w := by
  obtain ⟨evs, rfl⟩ := h
  suffices ∀ (l : List WEv) (w0 : WState), ReachableW H w0 → P w0 → P (runW H w0 l) from
    this evs {} ⟨[], rfl⟩ h0
  intro l
  induction l with
  | nil => intro w0 _ hp; simpa [runW] using hp
  | cons e l ih =>
    intro w0 hr hp
    simp only [runW, List.foldl_cons]
    exact ih _ (hr.step e) (hs w0 e hr hp)

end Sts.Stage
