/-
  L1 — executable model of the receiver, stage/local.go (`Stage`), together with the
  pieces of stage/companion.go, fileutil (WriteJSON, Move) and log (Received / WasReceived /
  Parse) it drives.

  Shape of the model (DESIGN.md section 3.1):
  * the disk maps names to *inode ids* and ids to bodies: `Receive` opens `<n>.part`
    before it takes the per-file lock and keeps writing through that handle, renames keep
    the inode;
  * every API call / worker action is one *operation* whose effect is an explicit list of
    primitive steps (`Prim`) computed from the state at the start of the locked region;
    durable primitives are the file-system mutations of the code, in statement order.
    Running an operation = folding its primitives; a crash inside it = running only the
    primitives up to the k-th durable one and then forgetting all memory;
  * `finalFile` objects are carried by value (`Entry`); the places where the Go code
    mutates such an object without going through `toCache` are modelled explicitly;
  * time is data: operations that read the clock take `now` (unix seconds).

  Core Lean only (linked into `stsdrv`).
-/
import StsModel.Model.Ranges

namespace Sts.Stage

abbrev Name := String
abbrev Body := List Nat

def upd {α : Type} [DecidableEq α] {β : Type} (f : α → β) (k : α) (v : β) : α → β :=
  fun x => if x = k then v else f x

@[simp] theorem upd_same {α : Type} [DecidableEq α] {β : Type} (f : α → β) (k : α) (v : β) :
    upd f k v k = v := by simp [upd]
@[simp] theorem upd_other {α : Type} [DecidableEq α] {β : Type} (f : α → β) (k x : α) (v : β)
    (h : x ≠ k) : upd f k v x = f x := by simp [upd, h]

/-- sts.Partial as written to `<n>.cmp` (time and source are carried by the code but read
    by nothing the properties depend on). -/
structure Cmp where
  renamed : String
  prev : String
  size : Int
  hash : String
  parts : List Rng
deriving DecidableEq, Repr, Inhabited

/-- stateReceived … stateLogged; `none` of `Option FState` is stateUnknown. -/
inductive FState | received | validated | failed | finalized | logged
deriving DecidableEq, Repr, Inhabited

def FState.num : FState → Int
  | .received => 0 | .validated => 1 | .failed => 2 | .finalized => 3 | .logged => 4

/-- a `finalFile` (by value). -/
structure Entry where
  renamed : String
  prev : String
  hash : String
  size : Int
  state : FState
  logged : Option Int := none
  time : Int := 0
  nextFinal : Bool := false
  /-- logical time of the last toCache (the code compares file.time in cleanWaiting) -/
  seq : Nat := 0
  /-- file.prevScanBeg: how far back the log was searched for the predecessor -/
  prevScanBeg : Option Int := none
deriving DecidableEq, Repr, Inhabited

structure LogRec where
  name : String
  renamed : String
  hash : String
  size : Int
  time : Int
  /-- ghost (not in the file): the predecessor the logged entry carried when it was finalized -/
  prev : String := ""
deriving DecidableEq, Repr, Inhabited

structure Disk where
  part : Name → Option Nat := fun _ => none
  full : Name → Option Nat := fun _ => none
  wait : Name → Option Nat := fun _ => none
  cmp : Name → Option Cmp := fun _ => none
  cmpTmp : Name → Option Cmp := fun _ => none      -- `<n>.cmp.lck` of fileutil.writeJSON
  final : String → Option Nat := fun _ => none     -- target path under the final root
  body : Nat → Body := fun _ => []
  nextIno : Nat := 0
  log : List LogRec := []
  mtime : Nat → Int := fun _ => 0                  -- mtime of a data inode
  cmpMtime : Name → Int := fun _ => 0
  /-- ghost: ranges written into an inode since it was created / truncated -/
  written : Nat → List Rng := fun _ => []

structure Mem where
  cache : Name → Option Entry := fun _ => none
  cacheTime : Option Int := none
  cacheTimes : List Int := []
  /-- s.wait : (predecessor name, waiting file, its finalFile) in insertion order -/
  wait : List (Name × Name × Entry) := []
  locks : Name → Bool := fun _ => false
  vq : List (Name × Entry) := []
  fq : List (Name × Entry) := []
  handles : List (Nat × Nat) := []       -- open write handle id ↦ inode
  timers : List Name := []               -- parked files with a pending retry timer
  ready : Bool := true
  clock : Nat := 0                       -- logical clock of toCache

structure State where
  disk : Disk := {}
  mem : Mem := {}

def init : State := {}

/-! ### primitives -/

inductive Prim
  -- durable (file system) steps, one per syscall of the code
  | rmCmp (n : Name)
  | rmCmpIf (n : Name) (h : String)                -- remove `<n>.cmp` unless it records another version
  | createPart (n : Name) (now : Int)              -- os.Create: new inode or truncate to 0
  | truncPart (n : Name) (size : Nat)              -- fh.Truncate(size): zero fill
  | writeIno (ino : Nat) (beg : Nat) (data : Body) (now : Int)
  | cmpTmp (n : Name) (c : Cmp)                    -- os.WriteFile(path+".lck")
  | cmpCommit (n : Name) (now : Int)               -- os.Rename(path+".lck", path)
  | rmPart (n : Name)
  | rmFull (n : Name)
  | renPartFull (n : Name)
  | renFullWait (n : Name)
  | logAppend (r : LogRec)
  | renWaitFinal (n : Name) (t : String)           -- fileutil.Move: os.Rename(<n>.wait, target)
  | rmFinal (t : String)                           -- environment: consumer takes the file
  | corrupt (ino : Nat) (pos : Nat) (v : Nat)      -- environment: staged byte overwritten
  | setMtime (ino : Nat) (t : Int)                 -- environment: os.Chtimes on a staged file
  | setCmpMtime (n : Name) (t : Int)
  -- memory steps
  | cacheSet (n : Name) (e : Entry)
  | cacheDel (n : Name)
  | cacheTimeSet (t : Option Int)
  | cacheTimesSet (l : List Int)
  | lockAdd (n : Name)
  | lockDel (n : Name)
  | vqPush (n : Name) (e : Entry)
  | vqDel (n : Name)
  | fqPush (n : Name) (e : Entry)
  | fqDel (n : Name)
  | waitAdd (p : Name) (n : Name) (e : Entry)
  | waitTake (p : Name)
  | timerSet (n : Name)
  | timerDel (n : Name)
  | handleOpen (h : Nat) (ino : Nat)
  | handleClose (h : Nat)
  | setReady (b : Bool)
  | nextFinalSet (n : Name)
deriving Repr

def Prim.durable : Prim → Bool
  | .rmCmp .. | .rmCmpIf .. | .createPart .. | .truncPart .. | .writeIno .. | .cmpTmp .. | .cmpCommit ..
  | .rmPart .. | .rmFull .. | .renPartFull .. | .renFullWait .. | .logAppend ..
  | .renWaitFinal .. | .rmFinal .. | .corrupt .. | .setMtime .. | .setCmpMtime .. => true
  | _ => false

def zeros (n : Nat) : Body := List.replicate n 0

/-- write `data` at offset `beg` into `b`, zero-extending (pwrite semantics). -/
def writeAt (b : Body) (beg : Nat) (data : Body) : Body :=
  let b' := if b.length < beg + data.length then b ++ zeros (beg + data.length - b.length) else b
  b'.take beg ++ data ++ b'.drop (beg + data.length)

def setAt (b : Body) (pos : Nat) (v : Nat) : Body :=
  if pos < b.length then b.take pos ++ [v] ++ b.drop (pos + 1) else b

def eraseFirst {α : Type} (p : α → Bool) : List α → List α
  | [] => []
  | x :: xs => if p x then xs else x :: eraseFirst p xs

def applyDisk (d : Disk) : Prim → Disk
  | .rmCmp n => { d with cmp := upd d.cmp n none }
  | .rmCmpIf n h =>
    match d.cmp n with
    | some c => if c.hash = h then { d with cmp := upd d.cmp n none } else d
    | none => d
  | .createPart n now =>
    match d.part n with
    | some i => { d with body := upd d.body i [], written := upd d.written i [],
                         mtime := upd d.mtime i now }
    | none => { d with part := upd d.part n (some d.nextIno), body := upd d.body d.nextIno [],
                       written := upd d.written d.nextIno [], nextIno := d.nextIno + 1,
                       mtime := upd d.mtime d.nextIno now }
  | .truncPart n size =>
    match d.part n with
    | some i => { d with body := upd d.body i (zeros size) }
    | none => d
  | .writeIno i beg data now =>
    { d with body := upd d.body i (writeAt (d.body i) beg data), mtime := upd d.mtime i now,
             written := upd d.written i (⟨beg, beg + data.length⟩ :: d.written i) }
  | .cmpTmp n c => { d with cmpTmp := upd d.cmpTmp n (some c) }
  | .cmpCommit n now =>
    match d.cmpTmp n with
    | some c => { d with cmp := upd d.cmp n (some c), cmpTmp := upd d.cmpTmp n none,
                         cmpMtime := upd d.cmpMtime n now }
    | none => d
  | .rmPart n => { d with part := upd d.part n none }
  | .rmFull n => { d with full := upd d.full n none }
  | .renPartFull n =>
    match d.part n with
    | some i => { d with full := upd d.full n (some i), part := upd d.part n none }
    | none => d
  | .renFullWait n =>
    match d.full n with
    | some i => { d with wait := upd d.wait n (some i), full := upd d.full n none }
    | none => d
  | .logAppend r => { d with log := d.log ++ [r] }
  | .renWaitFinal n t =>
    match d.wait n with
    | some i => { d with final := upd d.final t (some i), wait := upd d.wait n none }
    | none => d
  | .rmFinal t => { d with final := upd d.final t none }
  | .corrupt i pos v => { d with body := upd d.body i (setAt (d.body i) pos v) }
  | .setMtime i t => { d with mtime := upd d.mtime i t }
  | .setCmpMtime n t => { d with cmpMtime := upd d.cmpMtime n t }
  | _ => d

def applyMem (m : Mem) : Prim → Mem
  | .cacheSet n e => { m with cache := upd m.cache n (some { e with seq := m.clock }), clock := m.clock + 1 }
  | .cacheDel n => { m with cache := upd m.cache n none }
  | .cacheTimeSet t => { m with cacheTime := t }
  | .cacheTimesSet l => { m with cacheTimes := l }
  | .lockAdd n => { m with locks := upd m.locks n true }
  | .lockDel n => { m with locks := upd m.locks n false }
  | .vqPush n e => { m with vq := m.vq ++ [(n, e)] }
  | .vqDel n => { m with vq := eraseFirst (fun x => x.1 == n) m.vq }
  | .fqPush n e => { m with fq := m.fq ++ [(n, e)] }
  | .fqDel n => { m with fq := eraseFirst (fun x => x.1 == n) m.fq }
  | .waitAdd p n e =>
    -- toWait keeps the file already listed behind p; the log search of isFileReady has moved the
    -- search window of that very object (same version: the timer callback and the list share it)
    if m.wait.any (fun w => w.1 == p && w.2.1 == n) then
      { m with wait := m.wait.map (fun w =>
          if w.1 == p && w.2.1 == n && w.2.2.hash == e.hash
          then (w.1, w.2.1, { w.2.2 with prevScanBeg := e.prevScanBeg }) else w) }
    else { m with wait := m.wait ++ [(p, n, e)] }
  | .waitTake p => { m with wait := m.wait.filter (fun w => w.1 != p) }
  | .timerSet n => { m with timers := if m.timers.contains n then m.timers else m.timers ++ [n] }
  | .timerDel n => { m with timers := m.timers.filter (· != n) }
  | .handleOpen h i => { m with handles := (h, i) :: m.handles.filter (·.1 != h) }
  | .handleClose h => { m with handles := m.handles.filter (·.1 != h) }
  | .setReady b => { m with ready := b }
  | .nextFinalSet n =>
    match m.cache n with
    | some e => { m with cache := upd m.cache n (some { e with nextFinal := true }) }
    | none => m
  | _ => m

def applyPrim (s : State) (p : Prim) : State :=
  { disk := applyDisk s.disk p, mem := applyMem s.mem p }

def run (s : State) (ps : List Prim) : State := ps.foldl applyPrim s

/-- the primitives of `ps` up to and including the `k`-th durable one -/
def cut : Nat → List Prim → List Prim
  | _, [] => []
  | 0, _ => []
  | k + 1, p :: ps => if p.durable then p :: cut k ps else p :: cut (k + 1) ps

/-- process death: memory is lost, the disk stays. -/
def crash (s : State) : State := { disk := s.disk, mem := {} }

def durableCount (ps : List Prim) : Nat := (ps.filter Prim.durable).length

/-! ### helpers mirroring the code -/

def stateOf (m : Mem) (n : Name) : Option FState := (m.cache n).map (·.state)

def stateNum (m : Mem) (n : Name) : Int :=
  match m.cache n with | some e => e.state.num | none => -1

/-- toCache(file, state): file.time = now; file.state = state; cache[path] = file; when the
    file becomes finalized its predecessor's cache entry gets nextFinal. (nPipe and the
    cacheCnt-triggered cleanCache are not modelled; cacheTime is set from file.logged when
    it was zero.) -/
def toCache (m : Mem) (n : Name) (e : Entry) (st : FState) (now : Int) : List Prim :=
  let e' := { e with state := st, time := now }
  (match e.logged, m.cacheTime with
   | some l, none => [Prim.cacheTimeSet (some l)]
   | _, _ => []) ++
  [Prim.cacheSet n e'] ++
  (if e.prev ≠ "" ∧ st = .finalized then [Prim.nextFinalSet e.prev] else [])

def targetOf (n : Name) (renamed : String) : String := if renamed ≠ "" then renamed else n

def dayOf (t : Int) : Int := t / 86400

/-- log.rollingFile.each: the day files visited for a window (either direction); equal
    times visit nothing. Fuel bounds the walk (windows are at most `fuel` days). -/
def visitedDaysAux (stop : Int) (fwd : Bool) : Nat → Int → List Int
  | 0, _ => []
  | f + 1, start =>
    dayOf start ::
      (if fwd then (if start > stop then [] else visitedDaysAux stop fwd f (start + 86400))
       else (if start < stop then [] else visitedDaysAux stop fwd f (start - 86400)))

def visitedDays (start stop : Int) : List Int :=
  if start = stop then []
  else visitedDaysAux stop (decide (start < stop)) ((start - stop).natAbs / 86400 + 3) start

/-- FileIO.WasReceived after `fix:` exact matching: a record of exactly this name (and hash,
    when given) in a visited day file. -/
def wasReceived (log : List LogRec) (name hash : String) (start stop : Int) : Bool :=
  let days := visitedDays start stop
  log.any (fun r => r.name == name && (hash == "" || r.hash == hash) && days.contains (dayOf r.time))

end Sts.Stage
