/-
  Model of payload/bin.go (NewBin, IsFull, Add, Remove, Split, GetSize, GetParts) and of the
  packing loop of client/client.go startBin.

  Go int64 is modelled as Int. The two float64 detours of the code (`NewBin`: slack =
  int64(float64(size) * 0.1); `Add`: int64(math.Min(float64(end), float64(beg+space))))
  are modelled exactly: inside the range where float64 is exact they are integer
  arithmetic (`Int.tdiv _ 10`, `min`), outside it the model runs the same IEEE-754
  operations on Lean's `Float` (only the correspondence check looks at that branch; every
  theorem carries the bound that selects the integer branch as a hypothesis).

  Core Lean only (this file is linked into the `stsdrv` executable).
-/
import StsModel.Model.Chunk

namespace Sts

/-- 2^53: integers of at most this magnitude are exact in float64. -/
def lim53 : Int := 9007199254740992
/-- 2^49: below this magnitude float64(size)*0.1 truncates to size/10 (the product is
    below 2^46, its rounding error below 2^-7 and the error of the constant 0.1 below
    2^49 * 5.6e-18 < 0.004, together less than the 0.1 that separates k+0.9 from k+1). -/
def lim49 : Int := 562949953421312

/-- payload/bin.go `binFluff = 0.1` and NewBin: `fluff = int64(float64(size) * binFluff)`. -/
def binFluff (size : Int) : Int :=
  if -lim49 < size ∧ size < lim49 then Int.tdiv size 10
  else ((Float.ofInt size) * 0.1).toInt64.toInt

/-- payload/bin.go Add: `int64(math.Min(float64(a), float64(b)))`. -/
def f64min (a b : Int) : Int :=
  if (-lim53 ≤ a ∧ a ≤ lim53) ∧ (-lim53 ≤ b ∧ b ≤ lim53) then min a b
  else
    let x := Float.ofInt a
    let y := Float.ofInt b
    (if x ≤ y then x else y).toInt64.toInt

/-- payload/bin.go `part`: the chunk it was cut from (kept as its name) and [beg, end). -/
structure Part where
  name : String
  beg : Int
  fin : Int
deriving DecidableEq, Repr, Inhabited

def Part.len (p : Part) : Int := p.fin - p.beg

def partsBytes : List Part → Int
  | [] => 0
  | p :: ps => p.len + partsBytes ps

/-- payload/bin.go `Bin` (the fields the packing logic reads and writes). -/
structure Bin where
  parts : List Part
  capacity : Int
  fluff : Int
  bytes : Int
deriving DecidableEq, Repr, Inhabited

/-- payload/bin.go NewBin -/
def newBin (size : Int) : Bin := { parts := [], capacity := size, fluff := binFluff size, bytes := 0 }

/-- payload/bin.go IsFull after `fix: a payload without free space is full`:
    `space := capacity - bytes; return space <= 0 || space < fluff`. -/
def Bin.isFull (b : Bin) : Bool :=
  let space := b.capacity - b.bytes
  decide (space ≤ 0 ∨ space < b.fluff)

/-- The *original* IsFull: `space < 0 || space < fluff`. With a slack of 0 (payload size
    below 10 bytes) a bin that is exactly full is not "full". Kept to state and prove the
    defect that the `fix:` commit repairs (Props/C11: `packing_orig_drops`). -/
def Bin.isFullOrig (b : Bin) : Bool :=
  let space := b.capacity - b.bytes
  decide (space < 0 ∨ space < b.fluff)

/-- payload/bin.go Add: takes what fits of the rest of the chunk, appends it as a part and
    advances the chunk's allocation. Returns (bin, chunk, added). -/
def Bin.add (b : Bin) (ch : Chunk) : Bin × Chunk × Bool :=
  let na := ch.nextAlloc
  let beg := na.1
  let space := (b.capacity + b.fluff) - b.bytes
  let fin := f64min na.2 (beg + space)
  let bytes := fin - beg
  if bytes > 0 then
    ({ b with parts := b.parts ++ [⟨ch.name, beg, fin⟩], bytes := b.bytes + bytes },
      ch.addAlloc bytes, true)
  else (b, ch, false)

/-- payload/bin.go Remove for the part at index `i` (the harness passes `GetParts()[i]`;
    an index that is out of range stands for a part that is not in the bin: no effect):
    the last part is swapped into the slot, the slice is cut by one, `bytes` drops by the
    removed part's length. The chunk's own allocation is not touched. -/
def Bin.remove (b : Bin) (i : Nat) : Bin :=
  match b.parts[i]? with
  | none => b
  | some p =>
    { b with parts := (b.parts.set i (b.parts.getLast?.getD p)).dropLast,
             bytes := b.bytes - p.len }

/-- payload/bin.go Split: `none` (Go: nil, bin unchanged) unless `1 <= n < len(parts)`;
    otherwise (head, tail): the tail is a NewBin(nb) with capacity = bytes = nb holding
    parts[n:], the head keeps parts[:n] with capacity = bytes = old bytes - nb (and its old
    slack). -/
def Bin.split (b : Bin) (n : Int) : Option (Bin × Bin) :=
  if n < 1 ∨ n ≥ b.parts.length then none
  else
    let tl := b.parts.drop n.toNat
    let nb := partsBytes tl
    some ({ parts := b.parts.take n.toNat, capacity := b.bytes - nb, fluff := b.fluff,
            bytes := b.bytes - nb },
          { parts := tl, capacity := nb, fluff := binFluff nb, bytes := nb })

/-! ### client/client.go startBin: the packing loop -/

/-- the loop's variables `payload` and what it has sent to `chTransmit` so far. -/
structure Pack where
  payload : Option Bin
  out : List Bin
deriving Repr, Inhabited

/-- One pass of the loop body below the `select`, with `current` set:
    `if payload == nil { payload = BuildPayload(size) }; added := payload.Add(current);
     if !added || current.IsAllocated() { current = nil };
     if payload.IsFull() { out <- payload; payload = nil }`.
    `full` is the IsFull in force (repaired or original). -/
def packStep (cap : Int) (full : Bin → Bool) (st : Pack) (ch : Chunk) : Pack × Option Chunk :=
  let bin := st.payload.getD (newBin cap)
  let r := bin.add ch
  let cur := if !r.2.2 || r.2.1.isAllocated then none else some r.2.1
  if full r.1 then ({ payload := none, out := st.out ++ [r.1] }, cur)
  else ({ payload := some r.1, out := st.out }, cur)

/-- The loop runs the body again while `current != nil`. The Go loop has no bound; every
    pass that keeps `current` has added at least one byte of it, so `len + 1` passes are
    enough (Props/C11 `packChunk_spec`); `fuel` makes the function total. Returns the
    chunk still held when the fuel ran out (never, by that theorem). -/
def packChunk (cap : Int) (full : Bin → Bool) : Nat → Pack → Chunk → Pack × Option Chunk
  | 0, st, ch => (st, some ch)
  | n + 1, st, ch =>
    match packStep cap full st ch with
    | (st', none) => (st', none)
    | (st', some ch') => packChunk cap full n st' ch'

/-- the `case <-wait` branch (one second without a new chunk) and the `!ok` branch (input
    closed): a payload that holds bytes is sent. -/
def packFlush (st : Pack) : Pack :=
  match st.payload with
  | some b => if b.bytes > 0 then { payload := none, out := st.out ++ [b] } else st
  | none => st

/-- one event on the input side of startBin: a chunk popped from the queue (wrapped in a
    fresh `binnable`, allocated = 0) or a timeout. -/
def packInput (cap : Int) (full : Bin → Bool) (st : Pack) : Option Chunk → Pack
  | none => packFlush st
  | some ch => (packChunk cap full (ch.len.toNat + 1) st ch).1

/-- startBin over a whole input history, then the input channel is closed. The result is
    the sequence of payloads handed to the sender. -/
def packWith (full : Bin → Bool) (cap : Int) (items : List (Option Chunk)) : List Bin :=
  (packFlush (items.foldl (packInput cap full) { payload := none, out := [] })).out

def pack (cap : Int) (items : List (Option Chunk)) : List Bin := packWith Bin.isFull cap items

def packOrig (cap : Int) (items : List (Option Chunk)) : List Bin := packWith Bin.isFullOrig cap items

/-! ### queue/queue.go Tagged.Pop feeding startBin (one group, one tag) -/

/-- queue.Tagged.Pop called until it answers nil, for the files of one group in queue
    order: Pop hands out `allocate(tag.ChunkSize)` of the head file while that file is not
    allocated, then moves on (`FileAlloc.run` / `Resume.run` are exactly this loop for one
    file; files that are allocated from the start yield nothing). Each chunk comes out as a
    `sendable` (name, offset, length) which startBin wraps in a fresh `binnable`. -/
def popAll (c : Int) (fuel : Nat) (files : List (String × SFile)) : List Chunk :=
  files.flatMap (fun nf => (SFile.run c fuel nf.2).1.map (fun r => ⟨nf.1, r.beg, r.fin - r.beg, 0⟩))

end Sts
