/-
  Model of the clean lock and the cleaning timer of the receiver (stage/local.go: `New`, `CleanNow`,
  `clean`, `scheduleClean`).  Core Lean only, executable.

      func (s *Stage) CleanNow() { s.clean() }
      func (s *Stage) clean() {
          s.cleanLock.Lock()                       -- waitClean -> stopping   (needs the lock free)
          defer s.scheduleClean()                  -- runs LAST (after the Unlock below)
          defer s.cleanLock.Unlock()
          if s.cleanTimeout != nil {               -- stopping -> cleaning
              s.cleanTimeout.Stop(); s.cleanTimeout = nil }
          s.cleanStrays(time.Hour * 24)            -- cleaning -> waitSched   (the work, then the
          s.cleanWaiting()                         --                          deferred Unlock)
      }
      func (s *Stage) scheduleClean() {
          s.cleanLock.Lock()                       -- waitSched -> arming     (needs the lock free)
          defer s.cleanLock.Unlock()
          if s.cleanTimeout != nil { s.cleanTimeout.Stop() }
          s.cleanTimeout = time.AfterFunc(s.cleanInterval, func() { s.clean() })   -- arming -> done
      }

  Every invocation of `clean()` (by `CleanNow`, i.e. the HTTP route /clean, or by a timer firing) is a
  thread that walks through these program points; `New` calls `scheduleClean()` once, which is a
  thread starting at `waitSched`.  Threads are anonymous: the state counts how many are at each point.
  A timer fires at any moment while it is armed, whether or not anybody holds the lock (`Stop` on a
  timer that has fired does not take the firing back).  `armed` counts ALL armed timers in existence,
  `refArmed` says whether the one `cleanTimeout` points to is armed.

  Trusted below the model: `sync.RWMutex.Lock` is exclusive; `time.Timer.Stop` / firing are atomic
  with respect to each other; `time.AfterFunc` arms exactly one timer.  That the five functions have
  this text, and that nobody else touches `cleanLock` / `cleanTimeout`, is re-read from the source on
  every run (Generated/Cleaning.lean, obligations in Props/C20Lock.lean).
  `Prune` does NOT take the clean lock (see `cleanCalls` / `fieldUses` there).
-/
namespace Sts.CleanLock

/-- program points of one `clean()` invocation -/
inductive Pc
  | waitClean   -- called, before `s.cleanLock.Lock()` in clean
  | stopping    -- holds the lock, before the `if s.cleanTimeout != nil` block
  | cleaning    -- holds the lock, runs cleanStrays / cleanWaiting
  | waitSched   -- lock released, in scheduleClean before `s.cleanLock.Lock()`
  | arming      -- holds the lock in scheduleClean
  | done
deriving DecidableEq, Repr

structure St where
  waitClean : Nat := 0
  stopping : Nat := 0
  cleaning : Nat := 0
  waitSched : Nat := 0
  arming : Nat := 0
  done : Nat := 0
  locked : Bool := false
  /-- `s.cleanTimeout != nil` -/
  ref : Bool := false
  /-- the timer `s.cleanTimeout` points to is armed (not fired, not stopped) -/
  refArmed : Bool := false
  /-- all armed timers, referenced or not -/
  armed : Nat := 0
deriving DecidableEq, Repr

/-- `stage.New`: fields zero, then `s.scheduleClean()` -/
def new : St := { waitSched := 1 }

inductive Ev
  | call                 -- somebody calls CleanNow()
  | fireRef              -- the timer cleanTimeout points to fires
  | fireOther            -- an armed timer that cleanTimeout does not point to fires
  | step (pc : Pc)       -- one thread at `pc` executes up to its next program point
deriving DecidableEq, Repr

/-- `s.cleanTimeout.Stop()` -/
def stopRef (s : St) : St :=
  if s.refArmed then { s with refArmed := false, armed := s.armed - 1 } else s

/-- one event; an event that is not enabled leaves the state as it is -/
def next (s : St) : Ev → St
  | .call => { s with waitClean := s.waitClean + 1 }
  | .fireRef =>
    if s.refArmed then { s with refArmed := false, armed := s.armed - 1, waitClean := s.waitClean + 1 } else s
  | .fireOther =>
    if (if s.refArmed then 1 else 0) < s.armed then { s with armed := s.armed - 1, waitClean := s.waitClean + 1 } else s
  | .step .waitClean =>
    if 0 < s.waitClean ∧ s.locked = false then
      { s with waitClean := s.waitClean - 1, stopping := s.stopping + 1, locked := true } else s
  | .step .stopping =>
    if 0 < s.stopping then
      let s' := if s.ref then { stopRef s with ref := false, refArmed := false } else s
      { s' with stopping := s'.stopping - 1, cleaning := s'.cleaning + 1 } else s
  | .step .cleaning =>
    if 0 < s.cleaning then
      { s with cleaning := s.cleaning - 1, waitSched := s.waitSched + 1, locked := false } else s
  | .step .waitSched =>
    if 0 < s.waitSched ∧ s.locked = false then
      { s with waitSched := s.waitSched - 1, arming := s.arming + 1, locked := true } else s
  | .step .arming =>
    if 0 < s.arming then
      let s' := if s.ref then stopRef s else s
      { s' with ref := true, refArmed := true, armed := s'.armed + 1,
                arming := s'.arming - 1, done := s'.done + 1, locked := false } else s
  | .step .done => s

def exec (s : St) (es : List Ev) : St := es.foldl next s

/-- threads holding `cleanLock` -/
def holders (s : St) : Nat := s.stopping + s.cleaning + s.arming

/-- threads that have not finished -/
def active (s : St) : Nat := s.waitClean + s.stopping + s.cleaning + s.waitSched + s.arming

/-! ### the variant without `Stop()` before the timer is replaced (NOT what the code does) -/

def nextNoStop (s : St) : Ev → St
  | .step .arming =>
    if 0 < s.arming then
      { s with ref := true, refArmed := true, armed := s.armed + 1,
               arming := s.arming - 1, done := s.done + 1, locked := false } else s
  | e => next s e

end Sts.CleanLock
