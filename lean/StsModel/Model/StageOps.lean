/-
  Operations of the receiver model: for each API call / worker action of stage/local.go the
  list of primitive steps it performs, computed from the state at the start of the locked
  region (see Model/Stage.lean). `H` is the hash function (MD5 in the code; a parameter
  here — theorems that need "equal hash ⇒ equal body" take collision-freedom as an explicit
  hypothesis).
-/
import StsModel.Model.Stage

namespace Sts.Stage

/-- metadata announced with a part (payload header ⇒ sts.Partial in routeData) -/
structure Meta where
  renamed : String
  prev : String
  size : Int
  hash : String
deriving DecidableEq, Repr, Inhabited

inductive Op
  | prepare (n : Name) (size : Int) (now : Int)
  | open_ (n : Name) (h : Nat)
  | write (h : Nat) (beg : Nat) (data : Body) (now : Int)
  | record (n : Name) (m : Meta) (beg fin : Int) (now : Int)
  | process (n : Name) (now : Int)
  | finh (n : Name) (now : Int)
  | timer (n : Name)
  | buildCache (frm : Int) (now : Int)
  | receivedQ (n : Name) (m : Meta) (beg fin : Int)       -- partReceived after buildCache
  | recover (now : Int) (names : List Name)               -- names: every name with any staged artefact, walk order
  | cleanStrays (now : Int) (names : List Name)
  | cleanWaiting
  | consume (t : String)
  | corrupt (n : Name) (ext : String) (pos v : Nat)
deriving Repr

def Entry.ofMeta (m : Meta) (st : FState) : Entry :=
  { renamed := m.renamed, prev := m.prev, hash := m.hash, size := m.size, state := st }

def Entry.ofCmp (c : Cmp) (st : FState) : Entry :=
  { renamed := c.renamed, prev := c.prev, hash := c.hash, size := c.size, state := st }

/-- initStageFile under Prepare's lock -/
def prepareEffects (s : State) (n : Name) (size : Int) (now : Int) : List Prim :=
  [Prim.lockAdd n] ++
  (match s.disk.part n with
   | some i => if ((s.disk.body i).length : Int) = size then [] else
       (if s.disk.cmp n ≠ none ∧ (stateOf s.mem n = none ∨ stateOf s.mem n = some .failed)
        then [Prim.rmCmp n] else []) ++ [Prim.createPart n now, Prim.truncPart n size.toNat]
   | none =>
       (if s.disk.cmp n ≠ none ∧ (stateOf s.mem n = none ∨ stateOf s.mem n = some .failed)
        then [Prim.rmCmp n] else []) ++ [Prim.createPart n now, Prim.truncPart n size.toNat])

def handleIno (m : Mem) (h : Nat) : Option Nat := (m.handles.find? (·.1 == h)).map (·.2)

/-- newLocalCompanion + addCompanionPart -/
def nextCmp (d : Disk) (n : Name) (m : Meta) (beg fin : Int) : Cmp :=
  let base : Cmp :=
    match d.cmp n with
    | some c => if c.hash = m.hash then { c with prev := m.prev }
                else { renamed := m.renamed, prev := m.prev, size := m.size, hash := m.hash, parts := [] }
    | none => { renamed := m.renamed, prev := m.prev, size := m.size, hash := m.hash, parts := [] }
  { base with parts := (addPart base.parts beg fin).1 }

/-- the locked region of Receive (after the bytes were written) -/
def recordEffects (s : State) (n : Name) (m : Meta) (beg fin : Int) (now : Int) : List Prim :=
  let c := nextCmp s.disk n m beg fin
  [Prim.lockAdd n, Prim.cmpTmp n c, Prim.cmpCommit n now] ++
  (if isComplete c.parts c.size then
     let final := Entry.ofMeta m .received
     match s.mem.cache n with
     | some ex =>
       if ex.state ≠ .failed ∧ ex.hash = m.hash then
         [Prim.rmPart n] ++ (if ex.state.num ≥ 3 then [Prim.rmCmp n, Prim.lockDel n] else [])
       else
         (match s.disk.part n with
          | some _ => [Prim.renPartFull n] ++ toCache s.mem n final .received now ++
                      [Prim.vqPush n { final with time := now }]
          | none => toCache s.mem n final .failed now)
     | none =>
       (match s.disk.part n with
        | some _ => [Prim.renPartFull n] ++ toCache s.mem n final .received now ++
                    [Prim.vqPush n { final with time := now }]
        | none => toCache s.mem n final .failed now)
   else [])

/-- process(file) for the queue item `e` of name `n` (without the queue bookkeeping) -/
def processCore (H : Body → String) (s : State) (n : Name) (e : Entry) (now : Int) : List Prim :=
  [Prim.lockAdd n] ++
  (if stateOf s.mem n ≠ some .received then []
   else match s.disk.full n with
     | none => [Prim.rmCmp n, Prim.rmFull n] ++ toCache s.mem n e .failed now
     | some i =>
       if H (s.disk.body i) ≠ e.hash then toCache s.mem n e .failed now
       else [Prim.renFullWait n] ++ toCache s.mem n e .validated now ++
            [Prim.fqPush n { e with state := .validated, time := now }])

def processEffects (H : Body → String) (s : State) (n : Name) (now : Int) : List Prim :=
  match s.mem.vq.find? (·.1 == n) with
  | none => []
  | some (_, e) => [Prim.vqDel n] ++ processCore H s n e now

def isWaitingName (m : Mem) (n : Name) : Bool := m.wait.any (fun w => w.2.1 == n)

inductive Ready | yes | park (timer : Bool) (e : Entry)

def Ready.isYes : Ready → Bool | .yes => true | .park .. => false

/-- the log search of isFileReady for an unknown predecessor: (found, new prevScanBeg).
    `end` of the searched window is file.prevScanBeg, or the cache start time when that is
    zero or before 2010; a zero time makes log.each search from year 1 up to now. The
    window grows with the age of the file (whole minutes of age, in days). -/
def prevSearch (s : State) (e : Entry) (now : Int) : Bool × Int :=
  let age := now - e.time
  let len0 := (age / 60) * 86400
  let len := if len0 = 0 then 86400 else len0
  let fin : Option Int := match e.prevScanBeg with
    | some b => if b < 1262304000 then s.mem.cacheTime else some b
    | none => s.mem.cacheTime
  match fin with
  | some f => (wasReceived s.disk.log e.prev "" (f - len) f, f - len)
  | none => (s.disk.log.any (fun r => r.name == e.prev && dayOf r.time ≤ dayOf now + 1),
             -62135596800 - len)

/-- isFileReady -/
def isFileReady (s : State) (n : Name) (e : Entry) (now : Int) : Ready :=
  if e.prev = "" ∨ e.prev = n then .yes
  else match stateOf s.mem e.prev with
    | none =>
      if s.mem.locks e.prev then .park false e
      else if (prevSearch s e now).1 then .yes
      else .park true { e with prevScanBeg := some (prevSearch s e now).2 }
    | some .received | some .failed | some .validated => .park false e
    | some .finalized | some .logged => .yes

/-- finalize(file): putFileAway + release of the files parked on it -/
def finalizeEffects (s : State) (n : Name) (e : Entry) (now : Int) : List Prim :=
  [Prim.lockAdd n] ++
  (if stateOf s.mem n ≠ some .validated ∨ (s.mem.cache n).map (·.hash) ≠ some e.hash then []
   else
     [Prim.timerDel n, Prim.logAppend ⟨n, e.renamed, e.hash, e.size, now, e.prev⟩] ++
     (match s.disk.wait n with
      | none => []        -- Move fails (source missing): error logged, nothing else happens
      | some _ =>
        let t := targetOf n e.renamed
        [Prim.renWaitFinal n t] ++
        toCache s.mem n { e with logged := some now } .finalized now ++
        -- the companion goes only if it still describes the version being put away
        [Prim.rmCmpIf n e.hash, Prim.waitTake n] ++
        (s.mem.wait.filter (fun w => w.1 == n)).map (fun w => Prim.fqPush w.2.1 w.2.2))) ++
  [Prim.lockDel n]

def finhEffects (s : State) (n : Name) (now : Int) : List Prim :=
  match s.mem.fq.find? (·.1 == n) with
  | none => []
  | some (_, e) =>
    [Prim.fqDel n] ++
    (if stateOf s.mem n ≠ some .validated then []
     else match isFileReady s n e now with
       | .yes => finalizeEffects s n e now
       | .park timer e' =>
         [Prim.timerDel n] ++ (if timer then [Prim.timerSet n] else []) ++ [Prim.waitAdd e'.prev n e'])

/-! ### the finalize handler in two phases

`finalizeHandler` does its work in two phases that are NOT one atomic step of the code: the
decision (the cached state of the name is read without the file lock, `isFileReady` is evaluated,
which may scan the receive log) and, only if the file is ready, `finalize`, which takes the file
lock and checks state AND hash again, on the cache as it is at THAT moment. `finhEffects` above is
the composition of the two with nothing in between (`finhEffects_eq_decide_append` in
Props/C01Window.lean); the split operations below let other operations run in the window. -/

/-- finalizeHandler up to (not including) the call of `finalize`: the item is taken from the
    channel, the pre-check reads the cached state, `isFileReady` answers (and parks the file
    through `toWait` when it is not ready). -/
def finhDecideEffects (s : State) (n : Name) (now : Int) : List Prim :=
  match s.mem.fq.find? (·.1 == n) with
  | none => []
  | some (_, e) =>
    [Prim.fqDel n] ++
    (if stateOf s.mem n ≠ some .validated then []
     else match isFileReady s n e now with
       | .yes => []
       | .park timer e' =>
         [Prim.timerDel n] ++ (if timer then [Prim.timerSet n] else []) ++ [Prim.waitAdd e'.prev n e'])

/-- the item the handler holds after the decision phase when `isFileReady` answered true: the
    argument of the call `s.finalize(f)` that follows (hook point `stage.finh.ready`). -/
def finhPending (s : State) (n : Name) (now : Int) : Option Entry :=
  match s.mem.fq.find? (·.1 == n) with
  | none => none
  | some (_, e) =>
    if stateOf s.mem n ≠ some .validated then none
    else match isFileReady s n e now with
      | .yes => some e
      | .park .. => none

/-- the locked phase: `finalize(f)` for the held item `e`, computed on the state in which the
    file lock is taken (which is not the state of the decision when something ran in between). -/
def finhDoEffects (s : State) (n : Name) (e : Entry) (now : Int) : List Prim :=
  finalizeEffects s n e now

def timerEffects (s : State) (n : Name) : List Prim :=
  if s.mem.timers.contains n then
    match s.mem.wait.find? (fun w => w.2.1 == n) with
    | some w => [Prim.timerDel n, Prim.fqPush n w.2.2]
    | none => [Prim.timerDel n]
  else []

/-- buildCache(from): records of the visited day files, oldest day first, not after the
    current cache start; names that were cached before this build are kept; of the records read
    now the LATEST one of a name counts (after `fix:` "buildCache kept the oldest of several
    records of a name": every record of a name that was not cached before overwrites the entry
    loaded from the previous one). -/
def buildCacheLoad (recs : List LogRec) (cached : Name → Bool) (now : Int) : List Prim :=
  match recs with
  | [] => []
  | r :: rs =>
    if cached r.name then buildCacheLoad rs cached now
    else Prim.cacheSet r.name
           { renamed := r.renamed, prev := "", hash := r.hash, size := r.size, state := .logged,
             logged := some r.time, time := now } ::
         buildCacheLoad rs cached now

def buildCacheEffects (s : State) (frm : Int) (now : Int) : List Prim :=
  match s.mem.cacheTime with
  | some ct => if ct ≤ frm then [] else
      let days := visitedDays frm ct
      let recs := days.flatMap (fun d => s.disk.log.filter (fun r => dayOf r.time == d && !(r.time > ct)))
      buildCacheLoad recs (fun x => (s.mem.cache x).isSome) now ++
      (if recs.isEmpty then [] else [Prim.cacheTimesSet (s.mem.cacheTimes ++ [now])]) ++
      [Prim.cacheTimeSet (some frm)]
  | none =>
      let ct := now
      let days := visitedDays frm ct
      let recs := days.flatMap (fun d => s.disk.log.filter (fun r => dayOf r.time == d && !(r.time > ct)))
      buildCacheLoad recs (fun x => (s.mem.cache x).isSome) now ++
      (if recs.isEmpty then [] else [Prim.cacheTimesSet (s.mem.cacheTimes ++ [now])]) ++
      [Prim.cacheTimeSet (some frm)]

/-- partReceived (after its buildCache): answer and memory effects -/
def receivedAnswer (s : State) (n : Name) (m : Meta) (beg fin : Int) : Bool :=
  match s.mem.cache n with
  | none =>
    (match s.disk.cmp n with
     | some c => if m.renamed ≠ c.renamed ∨ m.hash ≠ c.hash ∨ m.prev ≠ c.prev then false
                 else partExists c.parts beg fin
     | none => false)
  | some ex => decide (ex.state ≠ .failed ∧ ex.hash = m.hash ∧ ex.renamed = m.renamed)

def receivedEffects (s : State) (n : Name) (m : Meta) : List Prim :=
  [Prim.lockAdd n] ++
  (match s.mem.cache n with
   | none => (match s.disk.cmp n with | some _ => [] | none => [Prim.lockDel n])
   | some ex => if ex.state ≠ .failed ∧ ex.hash = m.hash ∧ ex.renamed = m.renamed ∧ ex.state.num ≥ 3
                then [Prim.lockDel n] else [])

/-- GetFileStatus (after its buildCache): ConfirmNone 0 / Failed 1 / Passed 2 / Waiting 3 -/
def statusAnswer (s : State) (n : Name) : Nat :=
  match stateOf s.mem n with
  | some .received => 0
  | some .failed => 1
  | some .validated => if isWaitingName s.mem n then 3 else 2
  | some .logged => 2
  | some .finalized => 2
  | none => 0

/-- Recover(): the walk's classification of one name -/
inductive RecClass | finalize (c : Cmp) | validate (c : Cmp) | nothing

def recoverWalk (H : Body → String) (d : Disk) (n : Name) : List Prim × RecClass :=
  match d.cmp n with
  | none => ([], .nothing)
  | some c =>
    -- a `.wait` file is finalized only if its hash is the companion's (else it is ignored)
    if (match d.wait n with | some i => H (d.body i) == c.hash | none => false) then ([], .finalize c)
    else if d.full n ≠ none then ([], .validate c)
    else if d.part n ≠ none then
      (if isComplete c.parts c.size then ([Prim.renPartFull n], .validate c) else ([], .nothing))
    else ([Prim.rmCmp n], .nothing)

def minMtime (d : Disk) (now : Int) : List Name → Int
  | [] => now
  | n :: ns => let r := minMtime d now ns
               match d.cmp n with
               | some _ => if d.cmpMtime n < r then d.cmpMtime n else r
               | none => r

/-- Recover()'s test for a completed duplicate in its validate loop (after `fix:` "Ignoring
    duplicate (recover)", the counterpart of "Ignoring duplicate (receive)"): the cache entry of
    the name (the cache was just built from the receive log) is finalized or logged and carries
    the companion's hash. -/
def recoverDup (m : Mem) (n : Name) (c : Cmp) : Bool :=
  match m.cache n with
  | some ex => decide (ex.state.num ≥ 3 ∧ ex.hash = c.hash)
  | none => false

/-- one entry of Recover()'s validate list, in state `t`: a completed duplicate of a version
    that is already logged is dropped (`.full` first, companion second, path lock released);
    anything else gets the state received and is validated by process(). -/
def recoverValOne (H : Body → String) (t : State) (now : Int) (x : Name × Cmp) : List Prim :=
  if recoverDup t.mem x.1 x.2 then [Prim.rmFull x.1, Prim.rmCmp x.1, Prim.lockDel x.1]
  else
    toCache t.mem x.1 (Entry.ofCmp x.2 .received) .received now ++
    processCore H (run t (toCache t.mem x.1 (Entry.ofCmp x.2 .received) .received now)) x.1
      { Entry.ofCmp x.2 .received with time := now } now

/-- Recover(), sequentialised: walk, cache build, then finalize- and validate-lists. The
    primitives of the later phases are computed on the state produced by the earlier ones,
    so the whole is a fold. -/
def recoverEffects (H : Body → String) (s : State) (now : Int) (names : List Name) : List Prim :=
  let walk := names.map (fun n => (n, recoverWalk H s.disk n))
  let p1 := [Prim.setReady false] ++ walk.flatMap (fun x => x.2.1)
  let s1 := run s p1
  let oldest := minMtime s.disk now names
  let p2 := buildCacheEffects s1 (oldest - 86400) now
  let s2 := run s1 p2
  let fins := walk.filterMap (fun x => match x.2.2 with | .finalize c => some (x.1, c) | _ => none)
  let vals := walk.filterMap (fun x => match x.2.2 with | .validate c => some (x.1, c) | _ => none)
  let stepF := fun (acc : State × List Prim) (x : Name × Cmp) =>
    let e := Entry.ofCmp x.2 .validated
    let ps := toCache acc.1.mem x.1 e .validated now ++ [Prim.fqPush x.1 { e with time := now }]
    (run acc.1 ps, acc.2 ++ ps)
  let r3 := fins.foldl stepF (s2, [])
  let stepV := fun (acc : State × List Prim) (x : Name × Cmp) =>
    (run acc.1 (recoverValOne H acc.1 now x), acc.2 ++ recoverValOne H acc.1 now x)
  let r4 := vals.foldl stepV r3
  p1 ++ p2 ++ r4.2 ++ [Prim.setReady true]

/-- cleanStrays(24h) after `fix:` (the companion is read through its own path): the decision
    for one `<n>.part`: (remove the partial, remove the companion). After `fix:` "the stray
    cleaner removed the partial of a retransmission of a file that failed validation" the cache
    branch is taken only in the states in which a validated copy exists (`fileState >
    stateReceived && fileState != stateFailed`: validated 1, finalized 3, logged 4); state
    failed (2) goes to the receive-log look-up like received (0) and unknown (-1). -/
def cleanDecision (s : State) (now : Int) (n : Name) : Bool × Bool :=
  match s.disk.part n with
  | none => (false, false)
  | some i =>
    let age := now - s.disk.mtime i
    if age < 86400 then (false, false)
    else
      let comp := s.disk.cmp n
      let st := stateNum s.mem n
      let fileHash := match s.mem.cache n with | some e => e.hash | none => ""
      if st > 0 ∧ st ≠ 2 then
        let del := (match comp with | none => true | some c => decide (c.hash = fileHash))
        (del, del && comp.isSome && decide (st = 4))
      else
        let beg := s.disk.mtime i - (age / 60) * 3600
        let hash := match comp with | some c => c.hash | none => ""
        if wasReceived s.disk.log n hash beg now then (true, comp.isSome) else (false, false)

def cleanStrayOne (s : State) (now : Int) (n : Name) : List Prim :=
  (if (cleanDecision s now n).1 then [Prim.rmPart n] else []) ++
  (if (cleanDecision s now n).2 then [Prim.rmCmp n] else [])

def cleanStraysEffects (s : State) (now : Int) (names : List Name) : List Prim :=
  names.flatMap (cleanStrayOne s now)

/-- detectWaitLoop(prevPath): breadth-first walk of the wait map from `start`; true when some
    waiter reached is `start` itself. Fuel = number of wait entries + 1. -/
def waitersOf (m : Mem) (p : Name) : List Name := (m.wait.filter (fun w => w.1 == p)).map (·.2.1)

def detectLoopAux (m : Mem) (start : Name) : Nat → List Name → List Name → Bool
  | 0, _, _ => false
  | f + 1, paths, seen =>
    let ws := paths.flatMap (waitersOf m)
    if ws.contains start then true
    else
      let fresh := (ws.filter (fun w => !seen.contains w)).eraseDups
      if fresh.isEmpty then false else detectLoopAux m start f fresh (seen ++ fresh)

def detectLoop (m : Mem) (start : Name) : Bool :=
  detectLoopAux m start (m.wait.length + 1) [start] []

def insertBySeq (x : Name × Entry) : List (Name × Entry) → List (Name × Entry)
  | [] => [x]
  | y :: ys => if x.2.seq < y.2.seq then x :: y :: ys else y :: insertBySeq x ys

/-- cleanWaiting over the candidates (validated, prev ≠ "", oldest toCache first); the wait
    map changes while it runs, so this is a fold over states. -/
def cleanWaitingStep (acc : State × List Prim) (c : Name × Entry) : State × List Prim :=
  let s := acc.1
  let p := c.2.prev
  if !isWaitingName s.mem p then acc
  else if !detectLoop s.mem p then acc
  else
    let ws := s.mem.wait.filter (fun w => w.1 == p)
    let ps := [Prim.waitTake p] ++ ws.flatMap (fun w =>
      match s.mem.cache w.2.1 with
      | some f => if f.state = .validated then
          [Prim.timerDel w.2.1, Prim.cacheSet w.2.1 { f with prev := "" },
           Prim.fqPush w.2.1 { f with prev := "" }] else []
      | none => [])
    (run s ps, acc.2 ++ ps)

def cleanWaitingEffects (s : State) (names : List Name) : List Prim :=
  let cands := names.filterMap (fun n => match s.mem.cache n with
    | some e => if e.state = .validated ∧ e.prev ≠ "" then some (n, e) else none
    | none => none)
  let sorted := cands.foldl (fun acc x => insertBySeq x acc) []
  (sorted.foldl cleanWaitingStep (s, [])).2

/-- partReceived's clamp of the announced file time for buildCache -/
def receivedFrom (ftime now : Int) : Int :=
  let w := if ftime > now then now else ftime
  if w < now - 2592000 then now - 2592000 else w

/-- cleanCache() (cache ageing; called by the code every 1000 cached files, by the harness
    through a tag-guarded export). `names` = the names currently cached. An entry belongs to
    an expired batch when its `time` equals the batch's load time (as in the code; the
    harness gives distinct `now` values to operations that load batches). This operation is
    modelled for the correspondence check only: it is not among the events the theorems
    quantify over (C05's hypothesis `Remembered`). -/
def cleanCacheEffects (s : State) (now : Int) (names : List Name) : List Prim :=
  let expired := s.mem.cacheTimes.takeWhile (fun t => decide (now - t ≥ 3600))
  let rest := s.mem.cacheTimes.drop expired.length
  let considered := names.filterMap (fun n => match s.mem.cache n with
    | some e => if e.state.num ≥ 3 ∧ ¬ (e.prev ≠ "" ∧ e.nextFinal = false) then some (n, e) else none
    | none => none)
  let isDel := fun (x : Name × Entry) =>
    let age := match x.2.logged with | some l => now - l | none => now + 62135596800
    if age > 86400 then
      (if expired.isEmpty then true
       else decide (x.2.state = .logged) && expired.any (fun t => t == x.2.time))
    else false
  let dels := considered.filter isDel
  let kept := considered.filter (fun x => !isDel x)
  let ct := kept.foldl (fun acc x => match x.2.logged with
    | some l => if l < acc then l else acc
    | none => -62135596800) now
  [Prim.cacheTimesSet rest, Prim.cacheTimeSet (some ct)] ++ dels.map (fun x => Prim.cacheDel x.1)

def inoOf (d : Disk) (n : Name) (ext : String) : Option Nat :=
  if ext = "part" then d.part n else if ext = "full" then d.full n
  else if ext = "wait" then d.wait n else none

/-- One element of the query `Stage.Received(parts)`: a part of a file version. -/
structure PartQ where
  n : Name
  m : Meta
  beg : Int
  fin : Int
  /-- the file time the part announces (how far back partReceived extends the cache) -/
  ftime : Int := 0
deriving Repr, DecidableEq

/-- `Stage.Received(parts)`: the number of LEADING parts that are answered "received"; the loop
    stops at the first part that is not (the sender drops exactly that many parts from the front
    of the payload and sends the rest again). `ask` is one `partReceived` (answer, state after). -/
def receivedCount (ask : State → PartQ → Bool × State) : State → List PartQ → Nat × State
  | s, [] => (0, s)
  | s, q :: qs =>
    match ask s q with
    | (false, s') => (0, s')
    | (true, s') => let r := receivedCount ask s' qs; (r.1 + 1, r.2)

/-- one `partReceived` at time `now`: extend the cache back to the announced file time, answer,
    lock bookkeeping -/
def askPart (now : Int) (s : State) (q : PartQ) : Bool × State :=
  let s1 := run s (buildCacheEffects s (receivedFrom q.ftime now) now)
  (receivedAnswer s1 q.n q.m q.beg q.fin, run s1 (receivedEffects s1 q.n q.m))

/-- the state in which the `i`-th part of the query is asked -/
def askState (ask : State → PartQ → Bool × State) : State → List PartQ → Nat → State
  | s, _, 0 => s
  | s, [], _ + 1 => s
  | s, q :: qs, i + 1 => askState ask (ask s q).2 qs i

/-- what a "count every part that is on record" loop would answer (NOT the code: witness only) -/
def receivedCountAll (ask : State → PartQ → Bool × State) : State → List PartQ → Nat × State
  | s, [] => (0, s)
  | s, q :: qs =>
    let a := ask s q
    let r := receivedCountAll ask a.2 qs
    (if a.1 then r.1 + 1 else r.1, r.2)

end Sts.Stage
