/-
  Model of the sender's chunk allocation:
    queue/queue.go    sortedFile.allocate / isAllocated / getSendSize
    client/client.go  recoverFile.Allocate / IsAllocated / GetSendSize   (a resumed file)
    client/client.go  binnable.GetNextAlloc / AddAlloc / IsAllocated     (a chunk being binned)

  Go int64 is modelled as Int. A chunk (offset, length) is carried as the byte range
  [offset, offset+length) (`Rng`), the driver prints offset and length again.

  Core Lean only (this file is linked into the `stsdrv` executable).
-/
import StsModel.Model.Ranges

namespace Sts

/-! ### queue/queue.go: a plain (not resumed) file in the queue -/

/-- the two fields of `sortedFile` the allocation reads: `orig.GetSize()` and `allocated`. -/
structure FileAlloc where
  size : Int
  allocated : Int
deriving DecidableEq, Repr, Inhabited

/-- queue/queue.go sortedFile.allocate (branch for a file that is not `sts.Recovered`):
    `offset = allocated; length = desired; if desired == 0 || offset+length > size
    { length = size - offset }; allocated += length`. Returns (new state, offset, length). -/
def FileAlloc.allocate (f : FileAlloc) (desired : Int) : FileAlloc × Int × Int :=
  let offset := f.allocated
  let length := if desired = 0 ∨ offset + desired > f.size then f.size - offset else desired
  ({ f with allocated := f.allocated + length }, offset, length)

/-- queue/queue.go sortedFile.isAllocated (plain file): `allocated == size`. -/
def FileAlloc.isAllocated (f : FileAlloc) : Bool := f.allocated == f.size

/-- queue/queue.go sortedFile.getSendSize (plain file): the file size. -/
def FileAlloc.sendSize (f : FileAlloc) : Int := f.size

/-- The way queue.Tagged.Pop uses the three functions on one file: while the file is not
    allocated, allocate the tag's chunk size. The Go loop (spread over successive Pop calls)
    has no bound; `fuel` is the number of Pop calls looked at. Returns the chunks handed
    out, in order, and the final state. -/
def FileAlloc.run (c : Int) : Nat → FileAlloc → List Rng × FileAlloc
  | 0, f => ([], f)
  | n + 1, f =>
    if f.isAllocated then ([], f)
    else
      let r := f.allocate c
      let rest := FileAlloc.run c n r.1
      (⟨r.2.1, r.2.1 + r.2.2⟩ :: rest.1, rest.2)

/-! ### client/client.go: a resumed file (`recoverFile`) -/

/-- `recoverFile`: the missing ranges `left`, the index `part` of the range being handed
    out and the bytes `used` of it. -/
structure Resume where
  left : List Rng
  part : Nat
  used : Int
deriving DecidableEq, Repr, Inhabited

/-- client/client.go recoverFile.Allocate:
    `offset = left[part].Beg + used; length = desired; used += length;
     if offset+length >= left[part].End { length = left[part].End - offset; part++; used = 0 }`.
    `none` is Go's index-out-of-range panic (`part == len(left)`). -/
def Resume.allocate (f : Resume) (desired : Int) : Option (Resume × Int × Int) :=
  match f.left[f.part]? with
  | none => none
  | some r =>
    let offset := r.beg + f.used
    if offset + desired ≥ r.fin then
      some ({ f with part := f.part + 1, used := 0 }, offset, r.fin - offset)
    else
      some ({ f with used := f.used + desired }, offset, desired)

/-- client/client.go recoverFile.IsAllocated: `part == len(left)`. -/
def Resume.isAllocated (f : Resume) : Bool := f.part == f.left.length

def rngLen (r : Rng) : Int := r.fin - r.beg

def sumLens : List Rng → Int
  | [] => 0
  | r :: rs => rngLen r + sumLens rs

/-- client/client.go recoverFile.GetSendSize: the sum of `End - Beg` over `left`. -/
def Resume.sendSize (f : Resume) : Int := sumLens f.left

/-- The Pop loop for a resumed file (see `FileAlloc.run`); it also stops at a panic. -/
def Resume.run (c : Int) : Nat → Resume → List Rng × Resume
  | 0, f => ([], f)
  | n + 1, f =>
    if f.isAllocated then ([], f)
    else
      match f.allocate c with
      | none => ([], f)
      | some r =>
        let rest := Resume.run c n r.1
        (⟨r.2.1, r.2.1 + r.2.2⟩ :: rest.1, rest.2)

/-! ### queue/queue.go: sortedFile dispatches on `orig.(sts.Recovered)` -/

inductive SFile where
  | plain (f : FileAlloc)
  | resumed (size : Int) (r : Resume)
deriving Repr, Inhabited

/-- sortedFile.allocate with its type switch; `none` = panic inside recoverFile.Allocate. -/
def SFile.allocate : SFile → Int → Option (SFile × Int × Int)
  | .plain f, d => let r := f.allocate d; some (.plain r.1, r.2.1, r.2.2)
  | .resumed sz f, d => (f.allocate d).map (fun r => (.resumed sz r.1, r.2.1, r.2.2))

def SFile.isAllocated : SFile → Bool
  | .plain f => f.isAllocated
  | .resumed _ f => f.isAllocated

def SFile.sendSize : SFile → Int
  | .plain f => f.sendSize
  | .resumed _ f => f.sendSize

def SFile.run (c : Int) : Nat → SFile → List Rng × SFile
  | 0, f => ([], f)
  | n + 1, f =>
    if f.isAllocated then ([], f)
    else
      match f.allocate c with
      | none => ([], f)
      | some r =>
        let rest := SFile.run c n r.1
        (⟨r.2.1, r.2.1 + r.2.2⟩ :: rest.1, rest.2)

/-! ### client/client.go: `binnable`, the chunk while it is cut into payload parts -/

/-- `binnable` around a `sendable`: `GetSlice()` = (beg, len), plus `allocated`. -/
structure Chunk where
  name : String
  beg : Int
  len : Int
  allocated : Int
deriving DecidableEq, Repr, Inhabited

/-- client/client.go binnable.GetNextAlloc: `b, n := GetSlice(); return b+allocated, b+n`. -/
def Chunk.nextAlloc (c : Chunk) : Int × Int := (c.beg + c.allocated, c.beg + c.len)

/-- client/client.go binnable.AddAlloc -/
def Chunk.addAlloc (c : Chunk) (n : Int) : Chunk := { c with allocated := c.allocated + n }

/-- client/client.go binnable.IsAllocated: `allocated == n`. -/
def Chunk.isAllocated (c : Chunk) : Bool := c.allocated == c.len

end Sts
