/-
  Path handling of the receiver (properties C14, C15), for '/'-separated paths (Linux).

  A path string is split into its '/'-separated segments (empty segments kept) and a
  "rooted" flag; every theorem in Props/C14.lean is stated over segment lists, the string
  functions below are thin wrappers that split, call the segment function and join again.

  Mirrors (file + function quoted at each definition):
    Go's path.Clean / filepath.Clean / filepath.Join (lexical, as used by stage/local.go and
    payload/bin.go), http/server.go sanitizePathSegment / sanitizeRelativePath / isSubpath /
    rootRelativePath / normalizeRepeatedSlashes / isSafeRelPath / isSafeSourceName,
    payload/bin.go NewDecoder (separator conversion), main/server.go newStage (source name to
    directory name), stage/local.go (which files Prepare / Receive / process / putFileAway
    touch for one part).
-/
namespace Sts

/-! ## splitting and joining -/

/-- split a character list at every '/', keeping empty segments (`strings.Split(s, "/")`);
    `cur` is the segment being collected, reversed. -/
def splitSlashAux : List Char → List Char → List (List Char)
  | [], cur => [cur.reverse]
  | c :: cs, cur =>
    if c = '/' then cur.reverse :: splitSlashAux cs [] else splitSlashAux cs (c :: cur)

/-- the '/'-separated segments of a string; `segsOf "" = [""]`, `segsOf "/a" = ["", "a"]`. -/
def segsOf (s : String) : List String :=
  (splitSlashAux s.toList []).map String.ofList

/-- `strings.Join(segs, "/")` -/
def joinSegs (l : List String) : String := "/".intercalate l

/-- `path[0] == '/'` -/
def isRooted (s : String) : Bool :=
  match s.toList with
  | c :: _ => c == '/'
  | [] => false

/-! ## Go's lexical Clean -/

/-- One iteration of the loop of Go's `path.Clean` (path/path.go; `filepath.Clean` is the
    same on Linux). `acc` is the output so far as a stack of segments, last one first.
    empty and "." segments are skipped; ".." pops a real segment, is dropped at the root of
    a rooted path and is kept (appended) at the start of a relative path. -/
def pCleanStep (rooted : Bool) (acc : List String) (seg : String) : List String :=
  if seg = "" ∨ seg = "." then acc
  else if seg = ".." then
    match acc with
    | [] => if rooted then [] else [".."]
    | top :: rest => if top = ".." then ".." :: acc else rest
  else seg :: acc

/-- segments of `Clean(p)` for the segments of `p` -/
def cleanSegs (rooted : Bool) (segs : List String) : List String :=
  (segs.foldl (pCleanStep rooted) []).reverse

/-- Go's `path.Clean` on strings: "" gives ".", a rooted path that cleans to nothing gives "/",
    a relative one ".". -/
def cleanStr (s : String) : String :=
  if s = "" then "."
  else
    let c := cleanSegs (isRooted s) (segsOf s)
    if isRooted s then "/" ++ joinSegs c
    else if c = [] then "." else joinSegs c

/-- Go's `filepath.Join` (path/filepath/path_unix.go join): leading empty elements are
    skipped, the rest is joined with '/' and cleaned; all empty gives "". -/
def joinStr (elems : List String) : String :=
  match elems.dropWhile (· = "") with
  | [] => ""
  | l => cleanStr (joinSegs l)

/-- `strings.Split(s, sep)` for a non-empty `sep`: leftmost, non-overlapping occurrences.
    `cur` is the element being collected (reversed), `skip` the number of characters of a
    matched separator still to be passed over. -/
def splitOnAux (sep : List Char) : List Char → List Char → Nat → List (List Char)
  | [], cur, _ => [cur.reverse]
  | _ :: cs, cur, skip + 1 => splitOnAux sep cs cur skip
  | c :: cs, cur, 0 =>
    if sep.isPrefixOf (c :: cs) then cur.reverse :: splitOnAux sep cs [] (sep.length - 1)
    else splitOnAux sep cs (c :: cur) 0

def splitOnStr (s sep : String) : List String :=
  (splitOnAux sep.toList s.toList [] 0).map String.ofList

/-- payload/bin.go NewDecoder and http/server.go routeValidate:
    `filepath.Join(strings.Split(name, sep)...)`, applied only when `sep != ""`. -/
def sepConvert (sep name : String) : String :=
  if sep = "" then name else joinStr (splitOnStr name sep)

/-! ## http/server.go helpers of the static route -/

/-- character class of `safePathSegmentRe = ^[A-Za-z0-9._-]+$` -/
def segCharOk (c : Char) : Bool :=
  c.isAlphanum || c == '.' || c == '_' || c == '-'

/-- http/server.go sanitizePathSegment: non-empty and every character in the class -/
def sanitizeSeg (s : String) : Bool :=
  s != "" && s.toList.all segCharOk

/-- the loop of http/server.go sanitizeRelativePath over the segments of the trimmed value:
    "" and "." are skipped, ".." and any segment outside the whitelist are refused; returns
    the segments that were kept. -/
def sanitizeRelSegs : List String → Option (List String)
  | [] => some []
  | s :: rest =>
    if s = "" ∨ s = "." then sanitizeRelSegs rest
    else if s = ".." then none
    else if !sanitizeSeg s then none
    else (sanitizeRelSegs rest).map (s :: ·)

def dropSlashes : List Char → List Char
  | [] => []
  | c :: cs => if c = '/' then dropSlashes cs else c :: cs

/-- `strings.Trim(value, "/")` -/
def trimSlashes (s : String) : String :=
  String.ofList (dropSlashes (dropSlashes s.toList).reverse).reverse

/-- `strings.TrimRight(value, "/")` -/
def trimRightSlashes (s : String) : String :=
  String.ofList (dropSlashes s.toList.reverse).reverse

/-- `strings.TrimPrefix(s, pre)` -/
def trimPrefix (s pre : String) : String :=
  if pre.toList.isPrefixOf s.toList then String.ofList (s.toList.drop pre.toList.length) else s

/-- http/server.go sanitizeRelativePath; `none` is the error return. The result is computed
    as the code does, by `path.Clean("/" + raw)` with the leading slash removed. -/
def sanitizeRel (value : String) : Option String :=
  let raw := trimSlashes value
  if raw = "" then some ""
  else
    match sanitizeRelSegs (segsOf raw) with
    | none => none
    | some _ =>
      let cleaned := trimPrefix (cleanStr ("/" ++ raw)) "/"
      if cleaned = "." then some "" else if cleaned = "" then some "" else some cleaned

/-- http/server.go isSubpath: both arguments get their trailing separators replaced by
    exactly one, then prefix test. -/
def isSubpath (base target : String) : Bool :=
  (trimRightSlashes base ++ "/").toList.isPrefixOf (trimRightSlashes target ++ "/").toList

/-- http/server.go rootRelativePath -/
def rootRelativePath (rel : String) : String := if rel = "" then "." else rel

def squeezeSlashes : List Char → List Char
  | [] => []
  | [c] => [c]
  | a :: b :: rest => if a = '/' ∧ b = '/' then squeezeSlashes (b :: rest) else a :: squeezeSlashes (b :: rest)

/-- http/server.go normalizeRepeatedSlashes: "" becomes "/", every run of slashes one slash -/
def normalizeRepeatedSlashes (p : String) : String :=
  if p = "" then "/" else String.ofList (squeezeSlashes p.toList)

/-! ## the repaired name checks of the data routes -/

/-- the loop of http/server.go isSafeRelPath over the segments: no ".." segment and at least
    one segment that names something -/
def safeSegs (l : List String) : Bool :=
  l.all (fun s => s != "..") && l.any (fun s => s != "" && s != ".")

/-- http/server.go isSafeRelPath (Linux: `filepath.IsAbs` is "starts with '/'", `ToSlash` is
    the identity) -/
def isSafeRel (name : String) : Bool :=
  name != "" && !isRooted name && safeSegs (segsOf name)

/-- http/server.go isSafeSourceName -/
def isSafeSource (source : String) : Bool :=
  source != "." && (segsOf source).all (fun s => s != "..")

/-! ## main/server.go newStage: directory name of a source -/

/-- `strings.ReplaceAll(source, "/", "--")` on characters -/
def replSlash : List Char → List Char
  | [] => []
  | c :: cs => if c = '/' then '-' :: '-' :: replSlash cs else c :: replSlash cs

/-- main/server.go newStage `sourcePathReady` -/
def sourceDir (source : String) : String := String.ofList (replSlash source.toList)

/-! ## paths as cleaned, rooted segment lists -/

/-- `p` lies in the directory tree of `root` (both cleaned rooted segment lists) -/
def under (root p : List String) : Prop := root <+: p

instance (root p : List String) : Decidable (under root p) := by
  unfold under; exact inferInstance

/-- `filepath.Join(root, name)` for a rooted root: clean of the concatenated segments -/
def joinUnder (root name : List String) : List String := cleanSegs true (root ++ name)

/-- append an extension (".part", ".cmp", ...) to the last segment: `path + ext` -/
def addExt (p : List String) (ext : String) : List String :=
  match p.reverse with
  | [] => [ext]
  | last :: rest => (rest.reverse) ++ [last ++ ext]

/-- the receiver directories of one source (main/server.go newStage): the per-source
    directory name appended to the configured stage / final / log-in directories -/
structure Roots where
  stage : List String
  final : List String
  logs : List String

def sourceRoots (conf : Roots) (source : String) : Roots :=
  { stage := joinUnder conf.stage [sourceDir source]
    final := joinUnder conf.final [sourceDir source]
    logs := joinUnder conf.logs [sourceDir source] }

/-- extensions used in the stage directory: stage/local.go partExt, compExt, fullExt, waitExt
    and fileutil LockExt on the companion (fileutil.writeJSON) -/
def stageExts : List String := [".part", ".cmp", ".cmp.lck", ".full", ".wait"]

/-- files that stage/local.go Prepare / initStageFile / Receive / process / finalize touch in
    the stage directory for a part named `name` (`path := filepath.Join(s.rootDir, name)`,
    then `path + ext`) -/
def stageFiles (stageRoot : List String) (name : String) : List (List String) :=
  stageExts.map (addExt (joinUnder stageRoot (segsOf name)))

/-- files that stage/local.go putFileAway touches in the final directory:
    `targetPath = filepath.Join(s.targetDir, renamed or name)` and fileutil.Move's
    `targetPath + ".lck"` -/
def finalFiles (finalRoot : List String) (name renamed : String) : List (List String) :=
  let target := joinUnder finalRoot (segsOf (if renamed != "" then renamed else name))
  [target, addExt target ".lck"]

/-- the day file log/local.go rollingFile.getPath writes below the source's log directory -/
def logFile (logRoot : List String) (yyyymm dd : String) : List String :=
  logRoot ++ [yyyymm, dd]

/-- every path the receiver builds from one accepted part of a data request -/
def partPaths (r : Roots) (name renamed : String) (yyyymm dd : String) : List (List String) :=
  stageFiles r.stage name ++ finalFiles r.final name renamed ++ [logFile r.logs yyyymm dd]

end Sts
