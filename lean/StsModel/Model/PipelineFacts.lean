/-
  Types of the facts that tie T3 regenerates from `client/client.go` on every run
  (`StsModel/Generated/Sends.lean`, written by `/verif/extract`). Hand-written; the
  generated file only contains data of these types. Core Lean only.
-/
namespace Sts.Pipeline

/-- The channels of `client.Broker` (fields of the struct, created in `Start`). -/
inductive Chan
  | chStop | chScanned | chQueued | chRetry | chTransmit | chTransmitted | chStats | chValidate
  deriving DecidableEq, Repr

/-- The wait groups of `Broker.Start` (local variables `wgScanned` ... `wgValidated`). -/
inductive WG
  | scanned | queued | failed | transmit | transmitted | stats | validate | validated
  deriving DecidableEq, Repr

/-- One statement of the tail of `Broker.Start`: `wgX.Wait()` or `close(broker.chY)`. -/
inductive StartStep
  | wait (g : WG)
  | close (c : Chan)
  deriving DecidableEq, Repr

inductive OpKind
  | send | recv | close
  deriving DecidableEq, Repr

/-- How a channel operation is written.
    `bare`: a statement or expression that blocks unconditionally (`ch <- x`, `<-ch`, `x, ok = <-ch`);
    `selectCase`: the communication of a `case` of a `select`;
    `rangeLoop`: `for x := range ch`;
    `timedStop` / `timedStopNow`: through the generic helpers `sendCh` / `recvCh` with the stop
    predicate `broker.shouldStop` / `broker.shouldStopNow` (re-checked every second). -/
inductive OpForm
  | bare | selectCase | rangeLoop | timedStop | timedStopNow
  deriving DecidableEq, Repr

/-- One channel operation of client.go: enclosing function (closures are named
    `<func>.func<k>`, k counting the function literals of `<func>` in source order from 1),
    kind, the channel (a `Broker` field name when the operand is `broker.chX` or a local
    alias assigned from it, otherwise the operand's source text) and the form. -/
structure ChanOp where
  fn : String
  kind : OpKind
  chan : String
  form : OpForm
  deriving DecidableEq, Repr

/-- `start(broker.startX, &wgY, n)` in `Start`. -/
structure StageStart where
  fn : String
  wg : WG
  count : String
  deriving DecidableEq, Repr

/-- A `return` or `break` statement of one of the choreography functions together with the
    chain of enclosing control constructs (outermost first), each printed as
    `for`, `for <cond>`, `range <expr>`, `if <cond>`, `else`, `select`, `case <comm>`, `default`,
    `switch`, `case <exprs>`, `label <name>` (source text, single spaces). -/
structure ExitStmt where
  fn : String
  stmt : String
  path : List String
  deriving DecidableEq, Repr

end Sts.Pipeline
