/-
  What the sender announces for a scanned file (client/client.go scan(): the store's stat at
  scan time gives the size; hashFiles opens the file afterwards and hashes ALL of it) and what
  it then streams (payload Encoder: the first `size` bytes of the file as it is at send time).
  Core Lean only.
-/
namespace Sts.Announce

abbrev Body := List Nat

/-- (announced size, announced hash): size from the scan's stat, hash of the whole file as it
    is when hashFiles reads it. -/
def announce (H : Body → String) (sizeAtScan : Nat) (contentAtHash : Body) : Nat × String :=
  (sizeAtScan, H contentAtHash)

/-- the bytes the receiver ends up with when every chunk of `[0,size)` is transmitted from
    the file as it is at send time (short files end early; the receiver then never completes) -/
def streamed (size : Nat) (contentAtSend : Body) : Body := contentAtSend.take size

/-- the receiver validates iff the hash of what it holds is the announced one -/
def validates (H : Body → String) (ann : Nat × String) (received : Body) : Bool :=
  received.length == ann.1 && H received == ann.2

end Sts.Announce
