/-
  Model of the sender configuration: conf.go (SourceConf / TagConf / TargetConf, their aux
  structs and applyAux, ClientConf.propagate, the custom MarshalJSON methods),
  reflectutil/reflectutil.go (CopyStruct / IsZero) and the tag wiring of main/client.go
  (setDefaults, the qtags / FileTag construction of init(), tagger, grouper, nameToTag).

  Abstraction boundary (trusted, exercised by the harness on every generated value): the
  *text* of a duration, size, float or boolean is turned into its denotation by Go's
  parsers (time.ParseDuration, units.ParseBase2Bytes, strconv.ParseFloat, yaml.v2,
  encoding/json) and back by Duration.String / Base2Bytes.String; the model works on
  denotations: durations are nanoseconds, sizes bytes, error-backoff nano-units (1e-9).
  Regular expressions are restricted to literal patterns `^lit$`, `^lit`, `lit$`, `lit`
  (tag patterns) and `^([^X]*)` (group-by); regexp.Compile / MatchString are trusted.

  Core Lean only (this file is linked into the `stsdrv` executable).
-/
namespace Sts.Cfg

/-! ## values, fields, kinds -/

/-- value of one exported struct field in the code's representation -/
inductive Val
  | str (s : String)
  | num (n : Int)
  | bool (b : Bool)
  | ptr (p : Option String)          -- *regexp.Regexp by source text; none = nil
  | list (l : Option (List String))  -- slice; none = nil
deriving DecidableEq, Repr, Inhabited

/-- reflectutil.IsZero for the kinds that occur: "" / 0 / false / nil pointer / nil slice
    (a non-nil *regexp.Regexp has no settable fields and is never zero; a slice is zero only
    when nil). -/
def Val.isZero : Val → Bool
  | .str s => s == ""
  | .num n => n == 0
  | .bool b => !b
  | .ptr p => p.isNone
  | .list l => l.isNone

/-- a struct field together with its unexported `isXSet` marker (always false for fields
    that have no marker) -/
structure Fld where
  v : Val
  set : Bool
deriving DecidableEq, Repr, Inhabited

/-- a value as *written* in a YAML / JSON document (denotation, see header) -/
inductive W
  | s (v : String)
  | n (v : Int)
  | b (v : Bool)
  | l (v : List String)
  | bad                      -- a text the real parser rejects for this option
deriving DecidableEq, Repr, Inhabited

/-- the mechanisms by which options are decoded, inherited and re-encoded -/
inductive Kind
  | str          -- string, copied verbatim
  | int          -- int / int64, verbatim
  | dur          -- marshal.Duration -> time.Duration (JSON: string)
  | durRaw       -- time.Duration without wrapper (TargetConf; JSON: number)
  | size         -- units.Base2Bytes through an aux string ("" = leave zero)
  | bytes        -- uint64 through parseByteCount(interface{})
  | triMarked    -- bool through an aux string "true"/"false"/other, with isXSet marker
  | triPlain     -- the same without marker (include-hidden before `fix: include-hidden: false ...`)
  | boolPlain    -- plain bool, no marker
  | floatMarked  -- float64 through an aux string, with isXSet marker (error-backoff)
  | re           -- *regexp.Regexp through an aux string ("" = nil)
  | rePat        -- tag pattern: "" or DEFAULT = nil
  | reGroup      -- group-by
  | reList       -- []*regexp.Regexp (include / ignore; decoded each on its own, encoded jointly)
  | mapList      -- []*MappingConf (rename), flattened from,to,from,to,...
deriving DecidableEq, Repr, Inhabited

def Kind.marked : Kind → Bool
  | .triMarked | .floatMarked => true
  | _ => false

def Kind.label : Kind → String
  | .str => "str" | .int => "int" | .dur => "dur" | .durRaw => "durRaw" | .size => "size"
  | .bytes => "bytes" | .triMarked => "triMarked" | .triPlain => "triPlain"
  | .boolPlain => "boolPlain" | .floatMarked => "floatMarked" | .re => "re" | .rePat => "re"
  | .reGroup => "re" | .reList => "reList" | .mapList => "mapList"

/-! ## the field tables (checked against the real structs by reflection in the harness) -/

inductive SrcField
  | name | outDir | logDir | threads | cacheAge | minAge | maxAge | scanDelay | timeout
  | compress | statInterval | pollDelay | pollInterval | pollAttempts | pollMaxCount
  | rename | binSize | statPayload | groupBy | includeHidden | include | ignore | errorBackoff
deriving DecidableEq, Repr, Inhabited

inductive TagField
  | priority | method | order | pattern | chunkSize | delete | lastDelay | deleteDelay
deriving DecidableEq, Repr, Inhabited

inductive TgtField
  | name | key | host | pathPrefix | tlsCertPath | tlsCertBase64 | protocol | http3Port
  | quicMaxStreams | quicMaxIdleTimeout | quicKeepAlive | quicMaxStreamReceiveWindow
  | quicMaxConnectionReceiveWindow | quicEnableDatagrams | quicDisablePathMTUDiscovery
  | quicDisable0RTT
deriving DecidableEq, Repr, Inhabited

/-- conf.go SourceConf / auxSourceConf in declaration order: Go field name, key, kind.
    `Target` and `Tags` are structural (pointer to struct, slice of structs). -/
def srcTable : List (SrcField × String × String × Kind) := [
  (.name, "Name", "name", .str), (.outDir, "OutDir", "out-dir", .str),
  (.logDir, "LogDir", "log-dir", .str), (.threads, "Threads", "threads", .int),
  (.cacheAge, "CacheAge", "cache-age", .dur), (.minAge, "MinAge", "min-age", .dur),
  (.maxAge, "MaxAge", "max-age", .dur), (.scanDelay, "ScanDelay", "scan-delay", .dur),
  (.timeout, "Timeout", "timeout", .dur), (.compress, "Compression", "compress", .int),
  (.statInterval, "StatInterval", "stat-interval", .dur),
  (.pollDelay, "PollDelay", "poll-delay", .dur),
  (.pollInterval, "PollInterval", "poll-interval", .dur),
  (.pollAttempts, "PollAttempts", "poll-attempts", .int),
  (.pollMaxCount, "PollMaxCount", "poll-max-count", .int),
  (.rename, "Rename", "rename", .mapList), (.binSize, "BinSize", "bin-size", .size),
  (.statPayload, "StatPayload", "stat-payload", .triMarked),
  (.groupBy, "GroupBy", "group-by", .reGroup),
  (.includeHidden, "IncludeHidden", "include-hidden", .triMarked),
  (.include, "Include", "include", .reList), (.ignore, "Ignore", "ignore", .reList),
  (.errorBackoff, "ErrorBackoff", "error-backoff", .floatMarked)]

def tagTable : List (TagField × String × String × Kind) := [
  (.priority, "Priority", "priority", .int), (.method, "Method", "method", .str),
  (.order, "Order", "order", .str), (.pattern, "Pattern", "pattern", .rePat),
  (.chunkSize, "ChunkSize", "chunk-size", .size), (.delete, "Delete", "delete", .triMarked),
  (.lastDelay, "LastDelay", "last-delay", .dur),
  (.deleteDelay, "DeleteDelay", "delete-delay", .dur)]

def tgtTable : List (TgtField × String × String × Kind) := [
  (.name, "Name", "name", .str), (.key, "Key", "key", .str),
  (.host, "Host", "http-host", .str), (.pathPrefix, "PathPrefix", "http-path-prefix", .str),
  (.tlsCertPath, "TLSCertPath", "http-tls-cert", .str),
  (.tlsCertBase64, "TLSCertBase64", "http-tls-cert-encoded", .str),
  (.protocol, "Protocol", "protocol", .str), (.http3Port, "HTTP3Port", "http3-port", .int),
  (.quicMaxStreams, "QUICMaxStreams", "quic-max-streams", .int),
  (.quicMaxIdleTimeout, "QUICMaxIdleTimeout", "quic-max-idle-timeout", .durRaw),
  (.quicKeepAlive, "QUICKeepAlive", "quic-keep-alive", .durRaw),
  (.quicMaxStreamReceiveWindow, "QUICMaxStreamReceiveWindow",
    "quic-max-stream-receive-window", .bytes),
  (.quicMaxConnectionReceiveWindow, "QUICMaxConnectionReceiveWindow",
    "quic-max-connection-receive-window", .bytes),
  (.quicEnableDatagrams, "QUICEnableDatagrams", "quic-enable-datagrams", .boolPlain),
  (.quicDisablePathMTUDiscovery, "QUICDisablePathMTUDiscovery",
    "quic-disable-path-mtu-discovery", .boolPlain),
  (.quicDisable0RTT, "QUICDisable0RTT", "quic-disable-0rtt", .boolPlain)]

def srcKind : SrcField → Kind
  | .name | .outDir | .logDir => .str
  | .threads | .compress | .pollAttempts | .pollMaxCount => .int
  | .cacheAge | .minAge | .maxAge | .scanDelay | .timeout | .statInterval | .pollDelay
  | .pollInterval => .dur
  | .rename => .mapList | .binSize => .size | .statPayload => .triMarked
  | .groupBy => .reGroup | .includeHidden => .triMarked | .include | .ignore => .reList
  | .errorBackoff => .floatMarked

def tagKind : TagField → Kind
  | .priority => .int | .method | .order => .str | .pattern => .rePat | .chunkSize => .size
  | .delete => .triMarked | .lastDelay | .deleteDelay => .dur

def tgtKind : TgtField → Kind
  | .name | .key | .host | .pathPrefix | .tlsCertPath | .tlsCertBase64 | .protocol => .str
  | .http3Port | .quicMaxStreams => .int
  | .quicMaxIdleTimeout | .quicKeepAlive => .durRaw
  | .quicMaxStreamReceiveWindow | .quicMaxConnectionReceiveWindow => .bytes
  | .quicEnableDatagrams | .quicDisablePathMTUDiscovery | .quicDisable0RTT => .boolPlain

def allSrc : List SrcField := srcTable.map (·.1)
def allTag : List TagField := tagTable.map (·.1)
def allTgt : List TgtField := tgtTable.map (·.1)

/-! ## character-level helpers (on `List Char`, so that the kernel can evaluate them) -/

def lowerChar (c : Char) : Char :=
  if 'A' ≤ c ∧ c ≤ 'Z' then Char.ofNat (c.toNat + 32) else c

/-- strings.ToLower restricted to ASCII (the generator writes ASCII only) -/
def lower (s : String) : List Char := s.toList.map lowerChar

def isTrueStr (s : String) : Bool := lower s == ['t', 'r', 'u', 'e']
def isFalseStr (s : String) : Bool := lower s == ['f', 'a', 'l', 's', 'e']

def plainChar (c : Char) : Bool := c.isAlphanum || c == '_' || c == '/' || c == '-'

/-- body of a literal pattern: plain characters and `\.`; yields the literal -/
def litBody : List Char → Option (List Char)
  | [] => some []
  | '\\' :: '.' :: rest => (litBody rest).map ('.' :: ·)
  | c :: rest => if plainChar c then (litBody rest).map (c :: ·) else none

/-- a literal pattern `^lit$`, `^lit`, `lit$`, `lit` -/
structure Pat where
  anchS : Bool
  anchE : Bool
  lit : List Char
deriving DecidableEq, Repr

def stripCaret : List Char → Bool × List Char
  | '^' :: r => (true, r)
  | r => (false, r)

def stripDollar (cs : List Char) : Bool × List Char :=
  if cs.getLast? == some '$' then (true, cs.dropLast) else (false, cs)

def parsePat (cs : List Char) : Option Pat :=
  let a := stripCaret cs
  let b := stripDollar a.2
  (litBody b.2).map (fun l => ⟨a.1, b.1, l⟩)

def isInfix (l : List Char) : List Char → Bool
  | [] => l.isEmpty
  | c :: s => l.isPrefixOf (c :: s) || isInfix l s

/-- regexp.MatchString for a literal pattern (no multi-line mode: ^ and $ are text anchors) -/
def Pat.matches (p : Pat) (s : List Char) : Bool :=
  match p.anchS, p.anchE with
  | true, true => s == p.lit
  | true, false => p.lit.isPrefixOf s
  | false, true => p.lit.isSuffixOf s
  | false, false => isInfix p.lit s

/-- text that is certainly a valid regular expression and that the model never evaluates
    (include / ignore / rename.from): plain characters, `.`, `^`, `$` and `\.` -/
def safeRe : List Char → Bool
  | [] => true
  | '\\' :: '.' :: rest => safeRe rest
  | c :: rest => (plainChar c || c == '.' || c == '^' || c == '$') && safeRe rest

/-- group-by patterns the model evaluates: `^([^X]*)` / `^([^\.]*)`, X a plain character
    other than `-`, or `.`; the result is the delimiter -/
def parseGroupBy : List Char → Option Char
  | ['^', '(', '[', '^', '\\', '.', ']', '*', ')'] => some '.'
  | ['^', '(', '[', '^', c, ']', '*', ')'] =>
    if (plainChar c && c != '-') || c == '.' then some c else none
  | _ => none

def defaultTagText : String := "DEFAULT"

/-! ## applyAux, per kind -/

/-- does the real decoder (yaml.v2 / encoding/json into the aux struct, then applyAux)
    accept this written value for an option of kind `k`; `none` = key absent -/
def okK : Kind → Option W → Bool
  | _, none => true
  | .str, some (.s _) => true
  | .int, some (.n _) => true
  | .dur, some (.n _) => true
  | .durRaw, some (.n _) => true
  | .size, some (.n v) => v ≥ 0
  | .size, some (.s t) => t == ""
  | .bytes, some (.n v) => v ≥ 0          -- parseByteCount: negative is refused
  | .bytes, some (.s t) => t == ""
  | .triMarked, some (.s _) => true
  | .triPlain, some (.s _) => true
  | .boolPlain, some (.b _) => true
  | .floatMarked, some (.n _) => true
  | .floatMarked, some (.s t) => t == ""
  | .re, some (.s t) => safeRe t.toList
  | .rePat, some (.s t) => t == "" || t == defaultTagText || (parsePat t.toList).isSome
  | .reGroup, some (.s t) => t == "" || (parseGroupBy t.toList).isSome
  | .reList, some (.l xs) => xs.all (fun t => safeRe t.toList)
  | .mapList, some (.l xs) => xs.length % 2 == 0 && xs.all (fun t => safeRe t.toList)
  | _, _ => false

/-- the struct field after applyAux (the field starts from Go's zero value) -/
def applyK : Kind → Option W → Fld
  | .str, some (.s t) => ⟨.str t, false⟩
  | .str, _ => ⟨.str "", false⟩
  | .int, some (.n v) | .dur, some (.n v) | .durRaw, some (.n v) | .size, some (.n v)
  | .bytes, some (.n v) => ⟨.num v, false⟩
  | .int, _ | .dur, _ | .durRaw, _ | .size, _ | .bytes, _ => ⟨.num 0, false⟩
  -- case ToLower(aux) == "true": X = true;  case ... == "false": isXSet = true
  | .triMarked, some (.s t) =>
    if isTrueStr t then ⟨.bool true, false⟩
    else if isFalseStr t then ⟨.bool false, true⟩ else ⟨.bool false, false⟩
  | .triMarked, _ => ⟨.bool false, false⟩
  | .triPlain, some (.s t) => ⟨.bool (isTrueStr t), false⟩
  | .triPlain, _ => ⟨.bool false, false⟩
  | .boolPlain, some (.b v) => ⟨.bool v, false⟩
  | .boolPlain, _ => ⟨.bool false, false⟩
  -- if aux.ErrorBackoff != "" { ParseFloat; isErrorBackoffSet = true }
  | .floatMarked, some (.n v) => ⟨.num v, true⟩
  | .floatMarked, _ => ⟨.num 0, false⟩
  | .re, some (.s t) | .reGroup, some (.s t) =>
    if t == "" then ⟨.ptr none, false⟩ else ⟨.ptr (some t), false⟩
  | .re, _ | .reGroup, _ => ⟨.ptr none, false⟩
  -- if aux.Pattern != defaultTag && aux.Pattern != "" { Compile }
  | .rePat, some (.s t) =>
    if t == "" || t == defaultTagText then ⟨.ptr none, false⟩ else ⟨.ptr (some t), false⟩
  | .rePat, _ => ⟨.ptr none, false⟩
  -- compilePatterns: `for _, s := range exprs { ... append }` starting from a nil slice: nil
  -- when the list is omitted or empty
  | .reList, some (.l xs) => if xs.isEmpty then ⟨.list none, false⟩ else ⟨.list (some xs), false⟩
  | .reList, _ => ⟨.list none, false⟩
  | .mapList, some (.l xs) => ⟨.list (some xs), false⟩
  | .mapList, _ => ⟨.list none, false⟩

/-! ## structs -/

structure Tag where
  fld : TagField → Fld

structure Target where
  fld : TgtField → Fld

structure Source where
  fld : SrcField → Fld
  target : Option Target        -- *TargetConf, none = nil
  tags : Option (List Tag)      -- []*TagConf, none = nil

structure WTag where
  opt : TagField → Option W

structure WTarget where
  opt : TgtField → Option W

/-- one written source: every option present or absent; `target` / `tags` absent or given
    (`tags := some []` is an explicitly empty list) -/
structure WSource where
  opt : SrcField → Option W
  target : Option WTarget
  tags : Option (List WTag)

def WTag.empty : WTag := ⟨fun _ => none⟩
def WTarget.empty : WTarget := ⟨fun _ => none⟩
def WSource.empty : WSource := ⟨fun _ => none, none, none⟩

def wList : Option W → List String
  | some (.l xs) => xs
  | _ => []

/-- conf.go TagConf.applyAux -/
def applyTag (w : WTag) : Tag := ⟨fun f => applyK (tagKind f) (w.opt f)⟩
def okTag (w : WTag) : Bool := allTag.all (fun f => okK (tagKind f) (w.opt f))

/-- conf.go TargetConf.applyAux -/
def applyTarget (w : WTarget) : Target := ⟨fun f => applyK (tgtKind f) (w.opt f)⟩
def okTarget (w : WTarget) : Bool := allTgt.all (fun f => okK (tgtKind f) (w.opt f))

/-- conf.go SourceConf.applyAux, one field. Since `fix: an omitted include (ignore) list was
    not inherited when the other list was written` Include and Ignore are compiled each into a
    slice of its own (compilePatterns), like every other option field by field. -/
def applySrcFld (w : SrcField → Option W) (f : SrcField) : Fld := applyK (srcKind f) (w f)

/-- SourceConf.applyAux, one field, BEFORE that fix: Include and Ignore were compiled into ONE
    slice `patterns` and were sub-slices of it: `patterns[0:len(aux.Include)]` and
    `patterns[len(aux.Include):]`; both nil exactly when both lists are empty, otherwise BOTH
    non-nil (an empty sub-slice of a non-nil slice is not nil). Kept to state the defect
    (Props/C19 `absent_inherits_false_include_old`). -/
def applySrcFldOld (w : SrcField → Option W) (f : SrcField) : Fld :=
  match srcKind f with
  | .reList =>
    if (wList (w .include)).length + (wList (w .ignore)).length == 0 then ⟨.list none, false⟩
    else ⟨.list (some (wList (w f))), false⟩
  | k => applyK k (w f)

def applySource (w : WSource) : Source :=
  { fld := applySrcFld w.opt
    target := w.target.map applyTarget
    tags := w.tags.map (·.map applyTag) }

/-- applyAux of a whole source before the include / ignore fix -/
def applySourceOld (w : WSource) : Source := { applySource w with fld := applySrcFldOld w.opt }

def okSource (w : WSource) : Bool :=
  allSrc.all (fun f => okK (srcKind f) (w.opt f)) &&
  (match w.target with | none => true | some t => okTarget t) &&
  (match w.tags with | none => true | some ts => ts.all okTag)

/-! ## reflectutil.CopyStruct and ClientConf.propagate -/

/-- reflectutil.CopyStruct on one exported field: `if IsZero(fv) { fv.Set(fz) }`; the
    unexported marker is skipped (`!fv.CanInterface()`), so it is never copied -/
def copyZeroFld (t s : Fld) : Fld := if t.v.isZero then { t with v := s.v } else t

/-- the pattern `orig := tgt.X; CopyStruct(tgt, src); if tgt.isXSet { tgt.X = orig }` for a
    field that propagate() restores (`restored = true`), plain CopyStruct otherwise -/
def inheritFld (restored : Bool) (s t : Fld) : Fld :=
  let c := copyZeroFld t s
  if restored && t.set then { c with v := t.v } else c

/-- fields that propagate() saves and restores in a source (IncludeHidden since
    `fix: include-hidden: false was overridden by the preceding source`) -/
def srcRestored : SrcField → Bool
  | .statPayload | .errorBackoff | .includeHidden => true
  | _ => false

/-- include-hidden as it was decoded and inherited BEFORE that fix: no marker (kind
    triPlain), not restored after CopyStruct, always written as "true"/"false" by MarshalJSON.
    Kept to state the defect (Props/C19 `includeHidden_old_overridden`). -/
def includeHiddenOld (prev : Fld) (w : Option W) : Fld :=
  inheritFld false prev (applyK .triPlain w)

/-- fields that propagate() saves and restores in a tag -/
def tagRestored : TagField → Bool
  | .delete => true
  | _ => false

/-- inner loop body of propagate(): tag j > 0 takes the zero-valued fields of tag 0 -/
def tagInherit (tdef t : Tag) : Tag := ⟨fun f => inheritFld (tagRestored f) (tdef.fld f) (t.fld f)⟩

/-- `if len(src.Tags) > 1 { tdef := src.Tags[0]; for j := 1; ... }` -/
def tagsProp : List Tag → List Tag
  | [] => []
  | tdef :: rest => tdef :: rest.map (tagInherit tdef)

def Target.isZero (t : Target) : Bool := allTgt.all (fun f => (t.fld f).v.isZero)

/-- IsZero of the `Target *TargetConf` field: nil, or pointing at an all-zero struct -/
def targetIsZero : Option Target → Bool
  | none => true
  | some t => t.isZero

def copyZeroTarget (t s : Target) : Target := ⟨fun f => copyZeroFld (t.fld f) (s.fld f)⟩

/-- outer loop body of propagate() for i > 0: `CopyStruct(tgt, src)` over all exported fields
    (scalars, Target pointer, Tags slice), restore StatPayload / ErrorBackoff, then
    `if src.Target != nil && tgt.Target != nil { CopyStruct(tgt.Target, src.Target) }`.
    (When the pointer itself was copied the two are the same object and the second copy
    changes nothing; with values that is `copyZeroTarget x x = x`.) -/
def srcInherit (src tgt : Source) : Source :=
  let target1 := if targetIsZero tgt.target then src.target else tgt.target
  { fld := fun f => inheritFld (srcRestored f) (src.fld f) (tgt.fld f)
    target := match src.target, target1 with
      | some s, some t => some (copyZeroTarget t s)
      | _, t => t
    tags := match tgt.tags with | none => src.tags | some ts => some ts }

/-- the tag loop applied to the source that has just become `src` -/
def tagsPropS (s : Source) : Source := { s with tags := s.tags.map tagsProp }

def chain (prev : Source) : List Source → List Source
  | [] => []
  | t :: rest =>
    let t' := tagsPropS (srcInherit prev t)
    t' :: chain t' rest

/-- conf.go ClientConf.propagate: source i > 0 copies from the already completed source
    i-1; within every source tags 1.. copy from tag 0. (A source without tags shares the
    previous source's TagConf objects and the tag loop runs over them again; that second
    pass changes nothing, see Props/C19 `tagsProp_idem`.) -/
def propagate : List Source → List Source
  | [] => []
  | s :: rest =>
    let s' := tagsPropS s
    s' :: chain s' rest

/-- yaml.Unmarshal / json.Unmarshal of a document: `none` = the decoder returns an error -/
def parse (c : List WSource) : Option (List Source) :=
  if c.all okSource then some (propagate (c.map applySource)) else none

/-- `parse` before the include / ignore fix (`applySrcFldOld`) -/
def parseOld (c : List WSource) : Option (List Source) :=
  if c.all okSource then some (propagate (c.map applySourceOld)) else none

/-! ## MarshalJSON -/

/-- `%f` of a value given in nano-units: six decimals, round half to even (strconv rounds
    the exact binary value half-to-even; for the non-dyadic decimal ties this may differ from
    Go). Only used by `marshalSrcFldOld`: MarshalJSON printed error-backoff this way before
    `fix: error-backoff lost its decimals beyond the sixth when re-encoded as JSON`. -/
def round6 (x : Int) : Int :=
  let q := x / 1000
  let r := x % 1000
  if r < 500 then q * 1000
  else if r > 500 then (q + 1) * 1000
  else if q % 2 == 0 then q * 1000 else (q + 1) * 1000

/-- what MarshalJSON writes for one field; `none` = JSON null (nil slice) -/
def marshalK (k : Kind) (f : Fld) : Option W :=
  match k, f.v with
  -- case X: "true"; case isXSet: "false"; otherwise ""
  | .triMarked, .bool b => some (.s (if b then "true" else if f.set then "false" else ""))
  -- aux.IncludeHidden = "false"; if ss.IncludeHidden { "true" }
  | .triPlain, .bool b => some (.s (if b then "true" else "false"))
  -- if ss.isErrorBackoffSet { aux.ErrorBackoff = strconv.FormatFloat(ss.ErrorBackoff, 'f', -1, 64) }
  -- (the shortest decimal that parses back to the same float64: the denotation is unchanged)
  | .floatMarked, .num n => if f.set then some (.n n) else some (.s "")
  | _, .str s => some (.s s)
  | _, .num n => some (.n n)
  | _, .bool b => some (.b b)
  | _, .ptr none => some (.s "")
  | _, .ptr (some t) => some (.s t)
  | _, .list none => none
  | _, .list (some xs) => some (.l xs)

def vList : Val → List String
  | .list (some xs) => xs
  | _ => []

/-- SourceConf.MarshalJSON, one field. Include and Ignore are (still) sub-slices of one slice
    `strings`: both JSON null when both are empty, otherwise both written, an empty one as
    `[]` (which applyAux reads back as nil, see Props/C19 `ListsInv_rt`). -/
def marshalSrcFld (s : SrcField → Fld) (f : SrcField) : Option W :=
  match srcKind f with
  | .reList =>
    if (vList (s .include).v).length + (vList (s .ignore).v).length == 0 then none
    else some (.l (vList (s f).v))
  | k => marshalK k (s f)

/-- SourceConf.MarshalJSON, one field, BEFORE the error-backoff fix:
    `aux.ErrorBackoff = fmt.Sprintf("%f", ss.ErrorBackoff)` (six decimals). Kept to state the
    defect (Props/C19 `reencode_fixpoint_false_old`). -/
def marshalSrcFldOld (s : SrcField → Fld) (f : SrcField) : Option W :=
  match srcKind f, (s f).v with
  | .floatMarked, .num n => if (s f).set then some (.n (round6 n)) else some (.s "")
  | _, _ => marshalSrcFld s f

def marshalTag (t : Tag) : WTag := ⟨fun f => marshalK (tagKind f) (t.fld f)⟩
def marshalTarget (t : Target) : WTarget := ⟨fun f => marshalK (tgtKind f) (t.fld f)⟩

def marshalSource (s : Source) : WSource :=
  { opt := marshalSrcFld s.fld
    target := s.target.map marshalTarget
    tags := s.tags.map (·.map marshalTag) }

/-- json.Marshal(ClientConf) as the server does for a managed client (http/controller.go
    "conf"): every key is written; a JSON null reads back like an absent key -/
def toJSON (e : List Source) : List WSource := e.map marshalSource

/-- json.Marshal(ClientConf) before the error-backoff fix -/
def toJSONOld (e : List Source) : List WSource :=
  e.map (fun s => { marshalSource s with opt := marshalSrcFldOld s.fld })

/-- http.Client.GetClientConf: json.Unmarshal into ClientConf (applyAux + propagate) -/
def ofJSON (j : List WSource) : Option (List Source) := parse j

/-! ## main/client.go: setDefaults, init (tag part), tagger / grouper / nameToTag -/

def methodHTTP : String := "http"
def orderFIFO : String := "fifo"
def defaultBinSize : Int := 10 * 1024 * 1024 * 1024

def Tag.pattern (t : Tag) : Option String :=
  match (t.fld .pattern).v with
  | .ptr p => p
  | _ => none

def Tag.strOf (t : Tag) (f : TagField) : String :=
  match (t.fld f).v with
  | .str s => s
  | _ => ""

def Tag.numOf (t : Tag) (f : TagField) : Int :=
  match (t.fld f).v with
  | .num n => n
  | _ => 0

def Tag.boolOf (t : Tag) (f : TagField) : Bool :=
  match (t.fld f).v with
  | .bool b => b
  | _ => false

def Tag.setStr (t : Tag) (f : TagField) (s : String) : Tag :=
  ⟨fun g => if g = f then { t.fld g with v := .str s } else t.fld g⟩

/-- `&sts.TagConf{Method: sts.MethodHTTP}` -/
def httpDefaultTag : Tag :=
  ⟨fun f => if f = .method then ⟨.str methodHTTP, false⟩ else ⟨(applyK (tagKind f) none).v, false⟩⟩

/-- setDefaults: `for _, tag := range Tags { if tag.Pattern == nil { defaultTag = tag; break };
    if tag.Method == "" { tag.Method = http } }` — tags after the first default tag are not
    visited -/
def defaultMethods : List Tag → List Tag
  | [] => []
  | t :: rest =>
    if t.pattern.isNone then t :: rest
    else (if t.strOf .method == "" then t.setStr .method methodHTTP else t) :: defaultMethods rest

/-- setDefaults, tag part: a default tag is appended when none exists -/
def setDefaultsTags (ts : List Tag) : List Tag :=
  if ts.any (·.pattern.isNone) then defaultMethods ts else defaultMethods ts ++ [httpDefaultTag]

/-- init(): `if t.Order == "" { t.Order = sts.OrderFIFO }` (written into the TagConf) -/
def initOrder (t : Tag) : Tag := if t.strOf .order == "" then t.setStr .order orderFIFO else t

/-- the TagConf list as the running sender sees it -/
def runtimeTags (s : Source) : List Tag := (setDefaultsTags (s.tags.getD [])).map initOrder

/-- queue.Tag built by init() -/
structure QTag where
  name : String
  priority : Int
  order : String
  chunk : Int
  lastDelay : Int
deriving DecidableEq, Repr

/-- client.FileTag built by init() -/
structure FTag where
  name : String
  inOrder : Bool
  delete : Bool
  deleteDelay : Int
deriving DecidableEq, Repr

def tagName (t : Tag) : String := t.pattern.getD ""

def binSizeOf (s : Source) : Int :=
  match (s.fld .binSize).v with
  | .num n => if n == 0 then defaultBinSize else n
  | _ => defaultBinSize

def qtagOf (bin : Int) (t : Tag) : QTag :=
  { name := tagName t, priority := t.numOf .priority, order := t.strOf .order
    chunk := if t.numOf .chunkSize == 0 then bin else t.numOf .chunkSize
    lastDelay := t.numOf .lastDelay }

def ftagOf (t : Tag) : FTag :=
  { name := tagName t, inOrder := t.strOf .order != "", delete := t.boolOf .delete
    deleteDelay := t.numOf .deleteDelay }

/-- `qtags[i].Name == group || t.Pattern.MatchString(group)` for a tag with a pattern -/
def tagMatches (t : Tag) (group : List Char) : Bool :=
  match t.pattern with
  | none => false
  | some p =>
    p.toList == group ||
      (match parsePat p.toList with | some q => q.matches group | none => false)

/-- init() tagger: the name of the first tag with a pattern that equals or matches the
    group; "" (the default tag's name) when there is none -/
def tagger (tags : List Tag) (group : List Char) : List Char :=
  match tags.find? (tagMatches · group) with
  | some t => (tagName t).toList
  | none => []

/-- init() grouper with GroupBy = `^([^d]*)`: the first submatch is the longest prefix
    without the delimiter; an empty group or a group equal to the name is replaced by the
    tag name of the file name -/
def grouper (delim : Char) (tags : List Tag) (name : List Char) : List Char :=
  let g := name.takeWhile (· != delim)
  if g != [] && g != name then g else tagger tags name

/-- init() nameToTag = tagger ∘ grouper -/
def nameToTag (delim : Char) (tags : List Tag) (name : List Char) : List Char :=
  tagger tags (grouper delim tags name)

/-- queue.Tagged.getGroup: the FIRST queue tag whose name is the tag name -/
def qLookup (tags : List Tag) (tn : List Char) : Option Nat :=
  tags.findIdx? (fun t => (tagName t).toList == tn)

def lastIdxAux (tn : List Char) : List Tag → Nat → Option Nat → Option Nat
  | [], _, acc => acc
  | t :: rest, i, acc => lastIdxAux tn rest (i + 1) (if (tagName t).toList == tn then some i else acc)

/-- client.Broker tagMap (`tagMap[tag.Name] = tag` in list order): the LAST file tag whose
    name is the tag name -/
def fLookup (tags : List Tag) (tn : List Char) : Option Nat := lastIdxAux tn tags 0 none

/-- the group-by delimiter of a source (setDefaults: nil or "" means `^([^\.]*)`); `none`
    when the pattern is not of the evaluated form -/
def delimOf (s : Source) : Option Char :=
  match (s.fld .groupBy).v with
  | .ptr (some t) => parseGroupBy t.toList
  | _ => some '.'

/-- init(): patterns of tags whose method is not http are appended to the store's ignore
    list (after the configured ignore patterns and the two standard ones) -/
def nonHTTPPatterns (tags : List Tag) : List String :=
  tags.filterMap (fun t => if t.strOf .method == methodHTTP then none else t.pattern)

end Sts.Cfg
