/-
  Model of the directory pruning of the receiver (stage/local.go: `Prune`, `pruneTree`).  Core Lean
  only, executable.  (The clean lock and the cleaning timer are in Model/CleanLock.lean.)

  A directory tree is a finite list of entries (path as list of segments, directory flag, mtime).
  Times are integers (any unit; the harness uses seconds); `now - mtime` is the age that
  `time.Since(info.ModTime())` computes.

  What is outside the model (assumptions, restated in tools/props/C20.json):
  * I/O errors other than "directory not empty / no such directory / not a directory" (a failing
    `os.Remove` is a parameter `ok`; a failing `Lstat`/`ReadDir` inside `filepath.Walk` is not modelled);
  * nothing else changes the tree while `pruneTree` runs;
  * one `now` per call of `Prune` (the code calls `time.Since` once per visited entry and the two
    walks follow each other; the harness keeps every age minutes away from `minAge` or exactly on it).
-/
namespace Sts.Prune

abbrev Path := List String

structure Entry where
  path : Path
  isDir : Bool
  mtime : Int
deriving DecidableEq, Repr, Inhabited

abbrev Tree := List Entry

/-- `p` is `d` itself or lies below `d` (segment-wise prefix). -/
def under (d p : Path) : Bool := d.isPrefixOf p

/-- `p` is a direct entry of directory `d` (what `os.ReadDir(d)` lists). -/
def childOf (d p : Path) : Bool := p.length == d.length + 1 && d.isPrefixOf p

/-- `os.ReadDir(d)` returns at least one entry. -/
def hasEntries (fs : Tree) (d : Path) : Bool := fs.any (fun e => childOf d e.path)

/-- `d` exists and is a directory (`os.ReadDir(d)` does not fail). -/
def isDirAt (fs : Tree) (d : Path) : Bool := fs.any (fun e => e.path == d && e.isDir)

/-- stage/local.go pruneTree, walk callback: `time.Since(info.ModTime()) < minAge` means "skip";
    an entry is old enough when that test is false.  Exactly `minAge` old counts as old. -/
def oldEnough (now minAge : Int) (e : Entry) : Bool := !decide (now - e.mtime < minAge)

/-- order of `filepath.Walk`: depth-first, the names of one directory sorted (bytewise), a directory
    before its contents.  On paths that is the lexicographic order of the segment lists (NOT the
    order of the joined strings: `a/c` comes before `a-b` although `-` sorts before `/`). -/
def pathLe : Path → Path → Bool
  | [], _ => true
  | _ :: _, [] => false
  | a :: as, b :: bs => if a < b then true else if a = b then pathLe as bs else false

def insertEntry (e : Entry) : List Entry → List Entry
  | [] => [e]
  | x :: xs => if pathLe e.path x.path then e :: x :: xs else x :: insertEntry e xs

def sortEntries : List Entry → List Entry
  | [] => []
  | e :: es => insertEntry e (sortEntries es)

/-- what `filepath.Walk(root, fn)` visits, in its order: `root` and everything below it.  (On a
    well-formed tree: if `root` is missing nothing is visited, if it is a file only it is visited;
    a directory for which the callback returns nil is descended into - the callback of pruneTree
    always returns nil, so skipped young directories are still descended into.) -/
def walk (root : Path) (fs : Tree) : List Entry :=
  sortEntries (fs.filter (fun e => under root e.path))

/-- stage/local.go pruneTree, the `dirs` slice after the walk: the directories that are old enough,
    in walk order.  Files (old or not) and young directories are not collected. -/
def collect (root : Path) (now minAge : Int) (fs : Tree) : List Path :=
  ((walk root fs).filter (fun e => oldEnough now minAge e && e.isDir)).map (·.path)

/-- the parent directory of a path (the sandbox top `[]` is its own parent). -/
def parent (d : Path) : Path := d.dropLast

/-- OS fact: creating or removing an entry sets the mtime of its parent directory. -/
def touch (t : Int) (p : Path) (fs : Tree) : Tree :=
  fs.map (fun e => if e.path = p then { e with mtime := t } else e)

/-- one round of the backward loop of pruneTree for directory `d`:
    `os.ReadDir(d)` fails (gone, or not a directory) -> logged, continue;
    no entries -> `os.Remove(d)`; a failed removal (`ok d = false`) is logged and skipped;
    a successful removal also sets the parent's mtime (to `now`: the real value is the wall clock at
    that moment, which is not earlier than the `now` of the walk). -/
def removeStep (ok : Path → Bool) (now : Int) (fs : Tree) (d : Path) : Tree :=
  if isDirAt fs d && !hasEntries fs d && ok d then
    touch now (parent d) (fs.filter (fun e => e.path != d))
  else fs

/-- the backward loop over the collected list (given here already in processing order).  The list was
    collected BEFORE the loop and is not recomputed: removing a child does not add its parent. -/
def removeLoop (ok : Path → Bool) (now : Int) : Tree → List Path → Tree
  | fs, [] => fs
  | fs, d :: ds => removeLoop ok now (removeStep ok now fs d) ds

/-- processing order of pruneTree: the collected directories from the last to the first. -/
def pruneOrder (root : Path) (now minAge : Int) (fs : Tree) : List Path :=
  (collect root now minAge fs).reverse

/-- stage/local.go pruneTree(dir, minAge). -/
def pruneTree (ok : Path → Bool) (root : Path) (now minAge : Int) (fs : Tree) : Tree :=
  removeLoop ok now fs (pruneOrder root now minAge fs)

/-- stage/local.go Prune(minAge): the stage root, then the target root. -/
def prune (ok : Path → Bool) (stageRoot targetRoot : Path) (now minAge : Int) (fs : Tree) : Tree :=
  pruneTree ok targetRoot now minAge (pruneTree ok stageRoot now minAge fs)

/-- the directories removed by a run, in the order of their removal (what the `Prune: removed empty
    directory:` log lines show). -/
def removedLog (ok : Path → Bool) (now : Int) : Tree → List Path → List Path
  | _, [] => []
  | fs, d :: ds =>
    let fs' := removeStep ok now fs d
    (if isDirAt fs d && !hasEntries fs d && ok d then [d] else []) ++ removedLog ok now fs' ds

/-! ### the broken variant used as a witness (NOT what the code does)

  "after removing an old empty directory, also remove its parent if that is now empty, up to the
  root, without looking at the parent's age". -/

/-- from `d` upwards, as long as the directory lies under (or is) `root`, exists and is empty: remove
    it, whatever its age, and go on with its parent. -/
def climb (root : Path) (now : Int) : Nat → Tree → Path → Tree
  | 0, fs, _ => fs
  | n + 1, fs, d =>
    if under root d && isDirAt fs d && !hasEntries fs d then
      climb root now n (touch now (parent d) (fs.filter (fun e => e.path != d))) (parent d)
    else fs

def removeStepUp (root : Path) (now : Int) (fs : Tree) (d : Path) : Tree :=
  climb root now (d.length + 1) fs d

def removeLoopUp (root : Path) (now : Int) : Tree → List Path → Tree
  | fs, [] => fs
  | fs, d :: ds => removeLoopUp root now (removeStepUp root now fs d) ds

def pruneTreeUp (root : Path) (now minAge : Int) (fs : Tree) : Tree :=
  removeLoopUp root now fs (pruneOrder root now minAge fs)

/-! ### setup operations of the harness (not code under test) -/

def exists? (fs : Tree) (p : Path) : Bool := fs.any (fun e => e.path == p)

/-- create a directory or file at `p` with the given mtime: the parent must be an existing directory
    and `p` must not exist.  (The harness sets all mtimes explicitly just before calling Prune, so
    creating an entry does not change the recorded mtime of the parent.) -/
def create (fs : Tree) (p : Path) (isDir : Bool) (mtime : Int) : Option Tree :=
  if p != [] && isDirAt fs (parent p) && !exists? fs p then some (fs ++ [⟨p, isDir, mtime⟩]) else none

end Sts.Prune
