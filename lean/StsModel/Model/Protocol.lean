/-
  Protocol: an abstract per-file model of sender, network and receiver together (property C03).

  One record per file: what the sender thinks (`SPhase`), what the receiver holds (`RPhase`),
  the file's predecessor in its ordered group (an index into the file list) and whether the
  copy in the staging area is currently corrupted.  Globally a fault budget: fault actions are
  enabled only while it is positive; with budget 0 only protocol actions remain.

  The decisions mirror /repo/client/client.go (startSend, handleSendError, startTrack,
  startValidate, finish, startRetry, recover) and /repo/stage/local.go (Prepare / initStageFile,
  Receive, process, finalizeHandler / isFileReady / finalize, Recover, GetFileStatus).

  Abstractions (each is named again at the definition it concerns):
  * parts are counted, not located: the receiver's record of a file is the number of parts it
    holds (`part r`); a transmitted part is new iff the sender's count of acknowledged parts
    is at least the receiver's count (see `recvPart`).
  * pipeline positions inside the sender (scan, queue, bin, transmit channels) are collapsed
    into `pending`; the 1-second channel graces and the poll delay / interval are not modelled
    (no clock): every enabled action may happen at any time.
  * the receiver's two internal steps (process = validate, finalize = release) are separate
    actions, as in the code (two goroutines fed by two channels).
  * a predecessor is "released" when it is delivered; the receiver's other release paths for a
    predecessor it does not know (search of the receive log, the 10 s timer, the cleaner that
    breaks wait loops) are outside the model and appear as hypotheses of the theorems.
-/
namespace Sts.Protocol

/-- What the sender knows about a file.
  * `pending a`: found, hashed, cached and somewhere in the send pipeline; `a` parts have been
    acknowledged in the current lap (client.go startSend / startTrack `progressFile.sent`).
  * `polling p`: all parts acknowledged, logged as sent, in the poll set of startValidate with
    `polled = p` "not found" answers so far.
  * `repoll`: the one-shot poll of `recover` after a restart of the sender (a cached file that
    is not done and for which the receiver reported no incomplete partial).
  * `done`: marked done in the queue cache (`finish`, Waiting or Received).
  * `orphan`: cached, not done, and in no stage of the pipeline. Not reachable in the repaired
    code; produced only by `crashSenderFileOld` (the start-up recovery before the repair). -/
inductive SPhase where
  | pending (acked : Nat)
  | polling (polled : Nat)
  | repoll
  | done
  | orphan
  deriving DecidableEq, Repr, Inhabited

/-- What the receiver holds of a file (stage/local.go state cache + staging directory).
  * `absent`: nothing (stateUnknown, no companion).
  * `part r`: a `.part` file and a companion listing `r` parts, `r < nparts`.
  * `complete`: all parts recorded, `.full` exists, stateReceived, validation queued.
  * `failed`: stateFailed (hash mismatch); the staged copy is dead until the file is re-sent.
  * `held`: stateValidated, `.wait` exists, not yet finalized (queued for finalize or parked
    on its predecessor in the wait map).
  * `delivered`: put away in the final directory and logged (stateLogged / stateFinalized). -/
inductive RPhase where
  | absent
  | part (recorded : Nat)
  | complete
  | failed
  | held
  | delivered
  deriving DecidableEq, Repr, Inhabited

structure FileSt where
  nparts : Nat
  pred : Option Nat := none
  sp : SPhase := .pending 0
  rp : RPhase := .absent
  corrupted : Bool := false
  deriving DecidableEq, Repr, Inhabited

structure State where
  files : List FileSt
  /-- client.Conf.PollAttempts -/
  attempts : Nat
  budget : Nat
  deriving DecidableEq, Repr, Inhabited

/-- Actions on one file. Protocol: `sendPart allAcked validate release poll`.
Faults: `loseAck dropPart corrupt pollError earlyAcked`. -/
inductive FAct where
  | sendPart | allAcked | validate | release | poll
  | loseAck | dropPart | corrupt | pollError | earlyAcked
  deriving DecidableEq, Repr, Inhabited

inductive Action where
  | sendPart (i : Nat)
  | allAcked (i : Nat)
  | validate (i : Nat)
  | release (i : Nat)
  | poll (i : Nat)
  | loseAck (i : Nat)
  | dropPart (i : Nat)
  | corrupt (i : Nat)
  | pollError (i : Nat)
  | earlyAcked (i : Nat)
  | crashSender
  | crashReceiver
  deriving DecidableEq, Repr, Inhabited

def FAct.isProtocol : FAct → Bool
  | .sendPart | .allAcked | .validate | .release | .poll => true
  | _ => false

/-- The receiver's own steps (goroutines of the stage; no request of the sender involved). -/
def FAct.isReceiver : FAct → Bool
  | .validate | .release => true
  | _ => false

/-- The file an action concerns and what it does there; `none` for the two crashes. -/
def Action.target : Action → Option (Nat × FAct)
  | .sendPart i => some (i, .sendPart)
  | .allAcked i => some (i, .allAcked)
  | .validate i => some (i, .validate)
  | .release i => some (i, .release)
  | .poll i => some (i, .poll)
  | .loseAck i => some (i, .loseAck)
  | .dropPart i => some (i, .dropPart)
  | .corrupt i => some (i, .corrupt)
  | .pollError i => some (i, .pollError)
  | .earlyAcked i => some (i, .earlyAcked)
  | .crashSender => none
  | .crashReceiver => none

def Action.isProtocol (a : Action) : Bool :=
  match a.target with
  | some (_, fa) => fa.isProtocol
  | none => false

def Action.isReceiver (a : Action) : Bool :=
  match a.target with
  | some (_, fa) => fa.isReceiver
  | none => false

/-- `r` parts recorded out of `n`: stage.Receive `isCompanionComplete` then rename to `.full`,
stateReceived, validation queued. -/
def mkRecorded (n r : Nat) : RPhase :=
  if n ≤ r then .complete else .part r

/-- The receiver's side of one transmitted part (stage.Prepare / initStageFile + Receive) when
the sender has `a` parts acknowledged in this lap. Returns the new receiver phase and the new
corruption flag.
  * absent: a `.part` file is created, the companion gets its first part.
  * failed: initStageFile removes the stale companion (cached state failed) and creates a new
    `.part`: the dead copy is discarded, the record restarts with this part.
  * partial r: counted abstraction: the part is new iff `r ≤ a` (addCompanionPart adds it),
    otherwise it is a part the receiver holds already (written again, record unchanged).
  * complete / held / delivered: Receive finds the file in its cache with the same hash and
    state not failed: "Ignoring duplicate" (the sender gets its acknowledgement). -/
def recvPart (n a : Nat) (rp : RPhase) (c : Bool) : RPhase × Bool :=
  match rp with
  | .absent => (mkRecorded n 1, false)
  | .failed => (mkRecorded n 1, false)
  | .part r => if a < r then (.part r, c) else (mkRecorded n (r + 1), c)
  | .complete => (.complete, c)
  | .held => (.held, c)
  | .delivered => (.delivered, c)

/-- The sender's reaction to a poll verdict (client.go startValidate switch + finish +
startRetry; recover for `repoll`). `A` = PollAttempts.
  * held (Waiting) / delivered (Received): finish marks the file done.
  * failed: finish hands the file to startRetry: hashed again, re-sent whole (`left = 0..size`),
    with its original predecessor.
  * anything else is "not found" (GetFileStatus answers ConfirmNone for stateReceived too):
    `polled++`; when `polled == PollAttempts` the file goes to startRetry as well (re-sent
    whole: `pending 0`), otherwise it stays in the poll set. With PollAttempts = 0 the
    comparison never holds (the code polls for ever): the model has the same quirk.
  * `repoll` (recover): not found or failed: queued again whole; otherwise done. -/
def pollVerdict (A : Nat) (sp : SPhase) (rp : RPhase) : Option SPhase :=
  match sp with
  | .polling p =>
    match rp with
    | .held | .delivered => some .done
    | .failed => some (.pending 0)
    | _ => if p + 1 = A then some (.pending 0) else some (.polling (p + 1))
  | .repoll =>
    match rp with
    | .held | .delivered => some .done
    | _ => some (.pending 0)
  | _ => none

/-- One action on one file. `A` = PollAttempts, `pd` = the predecessor is delivered (or there is
none). `none` = not enabled. Fault actions are guarded by the budget in `step`. -/
def fileStep (A : Nat) (pd : Bool) (f : FileSt) : FAct → Option FileSt
  /- startSend: the next part of the file is transmitted and acknowledged. -/
  | .sendPart =>
    match f.sp with
    | .pending a =>
      if a < f.nparts then
        let (rp, c) := recvPart f.nparts a f.rp f.corrupted
        some { f with sp := .pending (a + 1), rp := rp, corrupted := c }
      else none
    | _ => none
  /- startTrack: `sent >= size`: logged as sent, handed to startValidate (polled = 0). -/
  | .allAcked =>
    match f.sp with
    | .pending a => if f.nparts ≤ a then some { f with sp := .polling 0 } else none
    | _ => none
  /- stage.process: hash of the `.full` file against the announced hash. -/
  | .validate =>
    match f.rp with
    | .complete =>
      if f.corrupted then some { f with rp := .failed, corrupted := false }
      else some { f with rp := .held }
    | _ => none
  /- finalizeHandler: isFileReady (no predecessor, or predecessor logged / finalized) then
     finalize: put away, logged, files parked on this one are queued for finalize. -/
  | .release =>
    match f.rp with
    | .held => if pd then some { f with rp := .delivered } else none
    | _ => none
  | .poll =>
    match pollVerdict A f.sp f.rp with
    | some sp => some { f with sp := sp }
    | none => none
  /- A request whose parts were processed but whose answer did not arrive (connection cut
     after the part, answer lost): the receiver has the part, the sender does not count it;
     handleSendError will ask (TxRecoverer) and count it then (a `sendPart` of a part the
     receiver holds already). -/
  | .loseAck =>
    match f.sp with
    | .pending a =>
      if a < f.nparts then
        let (rp, c) := recvPart f.nparts a f.rp f.corrupted
        some { f with rp := rp, corrupted := c }
      else none
    | _ => none
  /- A request that failed before the receiver processed the part: nothing changes. -/
  | .dropPart =>
    match f.sp with
    | .pending a => if a < f.nparts then some f else none
    | _ => none
  /- The staged copy is damaged before validation. -/
  | .corrupt =>
    match f.rp with
    | .part _ | .complete => some { f with corrupted := true }
    | _ => none
  /- A poll request fails: startValidate repeats it, `polled` is unchanged. -/
  | .pollError =>
    match f.sp with
    | .polling _ | .repoll => some f
    | _ => none
  /- The tracker counts bytes of a version twice (known finding `C08-requeued-same-version`: the
     progress entry is keyed by name and reset only when the hash differs) and so reaches
     `sent >= size` although the receiver does not hold every part: the file is logged as sent and
     polled early. The poll then answers "not found" until `PollAttempts` is reached and the file
     is sent again whole. Observed in the live runs once in many thousand; charged to the fault
     budget like the other deviations. -/
  | .earlyAcked =>
    match f.sp with
    | .pending a => if a < f.nparts then some { f with sp := .polling 0 } else none
    | _ => none

/-- Restart of the sender (client.go recover): a file that is not done and of which the
receiver reports an incomplete partial is queued for its missing parts (acked := recorded);
every other file that is not done is polled once (`repoll`). Done files stay done (the cache
is persisted after every poll batch). -/
def crashSenderFile (f : FileSt) : FileSt :=
  match f.sp with
  | .done => f
  | _ =>
    match f.rp with
    | .part r => { f with sp := .pending r }
    | _ => { f with sp := .repoll }

/-- client.go recover() BEFORE the repair `fix: retry the start-up poll request`: when the one
poll request of the start-up recovery failed, `recover` returned the error and `Start` dropped
the whole recovery list ("Recovery failed"): every cached file that is not done is then in no
stage of the pipeline, and no scan queues it again (unchanged cached files are skipped), until
the next restart. `pollFails` = that request failed. -/
def crashSenderFileOld (pollFails : Bool) (f : FileSt) : FileSt :=
  if pollFails then
    match f.sp with
    | .done => f
    | _ => { f with sp := .orphan }
  else crashSenderFile f

def predDelivered (files : List FileSt) (f : FileSt) : Bool :=
  match f.pred with
  | none => true
  | some j =>
    match files[j]? with
    | some g => g.rp == .delivered
    | none => false

/-- The transition function; `none` = not enabled. Restart of the receiver (stage.Recover):
a partial stays with its record, a complete file is validated again, a validated one is
queued for finalize again, delivered files are known from the log, and a failed one (its
`.full` and companion are still there) is validated again and fails again: the abstract
state is unchanged. -/
def step (s : State) (a : Action) : Option State :=
  match a.target with
  | some (i, fa) =>
    match s.files[i]? with
    | none => none
    | some f =>
      if fa.isProtocol then
        match fileStep s.attempts (predDelivered s.files f) f fa with
        | some f' => some { s with files := s.files.set i f' }
        | none => none
      else if 0 < s.budget then
        match fileStep s.attempts (predDelivered s.files f) f fa with
        | some f' => some { s with files := s.files.set i f', budget := s.budget - 1 }
        | none => none
      else none
  | none =>
    if 0 < s.budget then
      match a with
      | .crashSender => some { s with files := s.files.map crashSenderFile, budget := s.budget - 1 }
      | _ => some { s with budget := s.budget - 1 }
    else none

def enabled (s : State) (a : Action) : Bool := (step s a).isSome

def FileSt.complete (f : FileSt) : Bool := f.sp == .done && f.rp == .delivered

/-- Every file is marked done by the sender and delivered by the receiver. -/
def Complete (s : State) : Bool := s.files.all FileSt.complete

/-- Initial file: pending, nothing acknowledged, nothing at the receiver. -/
def initFile (n : Nat) (pred : Option Nat) : FileSt := { nparts := n, pred := pred }

/-! Ranking function (Props/C03.lean `measure_decreases`); the driver uses it as fuel. -/

/-- Work left at the receiver: parts to record, one validation, one release; a corrupted
staged copy costs one more validation and a whole further lap. -/
def rw (f : FileSt) : Nat :=
  match f.rp with
  | .delivered => 0
  | .held => 1
  | .complete => 2 + (if f.corrupted then f.nparts + 1 else 0)
  | .part r => (f.nparts - r) + 2 + (if f.corrupted then f.nparts + 1 else 0)
  | .failed => f.nparts + 2
  | .absent => f.nparts + 2

/-- Steps the sender can take on the file before the receiver's record must change (or the
file is done). -/
def sw (A : Nat) (f : FileSt) : Nat :=
  match f.sp with
  | .done => 0
  | .orphan => 0
  | .pending a =>
    match f.rp with
    | .held | .delivered | .complete => (f.nparts - a) + 2
    | .failed => if a < f.nparts then 0 else 2
    | .absent => if a < f.nparts then 0 else A + 1
    | .part r => if a < r then r - a else if a < f.nparts then 0 else A + r + 1
  | .polling p =>
    match f.rp with
    | .held | .delivered | .complete | .failed => 1
    | .absent => A - p
    | .part r => (A - p) + r
  | .repoll =>
    match f.rp with
    | .part r => 1 + r
    | _ => 1

/-- Weight of one file: lexicographic (receiver work, sender steps). -/
def weight (A : Nat) (f : FileSt) : Nat := rw f * (A + f.nparts + 3) + sw A f

def sumW (A : Nat) : List FileSt → Nat
  | [] => 0
  | f :: t => weight A f + sumW A t

/-- The ranking function. -/
def measure (s : State) : Nat := sumW s.attempts s.files

/-- All protocol actions on file `i`, receiver steps first. -/
def protoActions (i : Nat) : List Action :=
  [.validate i, .release i, .sendPart i, .allAcked i, .poll i]

/-- The first enabled protocol action on file `i`, receiver steps first. -/
def pickFor (s : State) (i : Nat) : Option Action := (protoActions i).find? (enabled s)

def firstEnabledBelow (s : State) : Nat → Option Action
  | 0 => none
  | k + 1 =>
    match firstEnabledBelow s k with
    | some a => some a
    | none => pickFor s k

/-- A deterministic scheduler used by the driver: the first enabled protocol action, files in
order, receiver steps before sender steps (so it never takes a sender step on a file whose
validation is pending: Props/C03.lean `firstEnabled_spec`). -/
def firstEnabled (s : State) : Option Action := firstEnabledBelow s s.files.length

/-- Run the scheduler until nothing is enabled (or the fuel ends). -/
def runToQuiescence : Nat → State → State
  | 0, s => s
  | fuel + 1, s =>
    match firstEnabled s with
    | none => s
    | some a =>
      match step s a with
      | some s' => runToQuiescence fuel s'
      | none => s

end Sts.Protocol
