/-
  Model of the transfer logs: log/local.go `FileIO` (`Sent`, `Received`, `wasWritten`,
  `WasSent`, `WasReceived`, `Parse`), `rollingFile` (`getPath`, `each`, `eachLine`, `log`)
  and, for the behaviour before the repair of finding F2, `rollingFile.search` together
  with fileutil/fileutil.go `FindLine`.

  Conventions of this model
  * A Go string is a sequence of bytes. It is modelled as `List Char` with one `Char`
    (code below 256) per byte; the driver embeds bytes that way. Only `:` `\n` `\r`,
    the decimal digits, `+`, `-`, the blank and `m`, `s` have a meaning in the code.
  * Time is unix seconds, an `Int`. `getPath` (directory `YYYYMM`, file `DD`) is modelled
    as the day number `t / 86400` (floor division; the checks run with TZ=UTC).
  * The log directory is an append-only history: a list of `(day, bytes appended)`.
    The content of a day file is the concatenation of what was appended to it; a day
    without file reads as empty (`os.Open` fails, the handler is skipped).
  * The clock is a parameter: `each` reads `time.Now()` once per zero argument.
-/
namespace Sts
namespace LogFmt

/-- a Go string, one `Char` per byte -/
abbrev Str := List Char

/-! ## strings.Split / bufio.ScanLines / strings.CutPrefix / bytes.Contains -/

/-- `strings.Split(s, string(sep))` for a one-byte separator: never empty, `n` separators
    give `n+1` pieces. -/
def splitOn (sep : Char) : Str → List Str
  | [] => [[]]
  | c :: cs =>
    if c = sep then [] :: splitOn sep cs
    else match splitOn sep cs with
      | [] => [[c]]
      | p :: ps => (c :: p) :: ps

/-- tokens of `bufio.ScanLines` before the carriage return is dropped: every `\n` ends a
    token; a final unterminated token is returned only if it is not empty. -/
def linesRaw : Str → List Str
  | [] => []
  | c :: cs =>
    if c = '\n' then [] :: linesRaw cs
    else match linesRaw cs with
      | [] => [[c]]
      | l :: ls => (c :: l) :: ls

/-- bufio `dropCR`: one trailing `\r` is removed from a token. -/
def dropCR (l : Str) : Str :=
  if l.getLast? = some '\r' then l.dropLast else l

/-- the lines a `bufio.Scanner` (default split function) yields for a file content.
    (The 64 KiB token limit of the scanner is outside the model.) -/
def scanLines (s : Str) : List Str := (linesRaw s).map dropCR

/-- `strings.CutPrefix(s, p)`. -/
def stripPrefix : Str → Str → Option Str
  | [], s => some s
  | _ :: _, [] => none
  | p :: ps, c :: cs => if p = c then stripPrefix ps cs else none

/-- `bytes.Contains(s, p)` / `strings.Contains(s, p)`. -/
def isInfix (p : Str) : Str → Bool
  | [] => p.isEmpty
  | c :: cs => (stripPrefix p (c :: cs)).isSome || isInfix p cs

/-! ## decimal numbers: fmt `%d` and strconv.ParseInt(s, 10, 64) -/

def digitChar : Nat → Char
  | 0 => '0' | 1 => '1' | 2 => '2' | 3 => '3' | 4 => '4'
  | 5 => '5' | 6 => '6' | 7 => '7' | 8 => '8' | _ => '9'

def digitVal? : Char → Option Nat
  | '0' => some 0 | '1' => some 1 | '2' => some 2 | '3' => some 3 | '4' => some 4
  | '5' => some 5 | '6' => some 6 | '7' => some 7 | '8' => some 8 | '9' => some 9
  | _ => none

/-- decimal digits, most significant first; the first argument is fuel (`n` itself is
    always enough). -/
def natDigitsAux : Nat → Nat → Str
  | 0, n => [digitChar (n % 10)]
  | f + 1, n => if n < 10 then [digitChar n] else natDigitsAux f (n / 10) ++ [digitChar (n % 10)]

/-- decimal digits of a natural number, most significant first, no leading zero. -/
def natDigits (n : Nat) : Str := natDigitsAux n n

/-- fmt verb `%d` of an int64. -/
def fmtInt (i : Int) : Str :=
  if i < 0 then '-' :: natDigits i.natAbs else natDigits i.toNat

def parseNatAux : Str → Nat → Option Nat
  | [], acc => some acc
  | c :: cs, acc =>
    match digitVal? c with
    | some d => parseNatAux cs (acc * 10 + d)
    | none => none

def parseNat? (s : Str) : Option Nat :=
  match s with
  | [] => none
  | _ => parseNatAux s 0

/-- `strconv.ParseInt(s, 10, 64)`: optional sign, at least one digit, digits only.
    (Values outside int64, which Go clamps, are outside the model.) -/
def parseInt? : Str → Option Int
  | '-' :: cs => (parseNat? cs).map (fun n => - (n : Int))
  | '+' :: cs => (parseNat? cs).map (fun n => (n : Int))
  | s => (parseNat? s).map (fun n => (n : Int))

/-- `v, _ := strconv.ParseInt(...)`: a syntax error leaves 0. -/
def atoi (s : Str) : Int := (parseInt? s).getD 0

/-! ## records and their lines (log/local.go `Received`, `Sent`) -/

/-- one record of the receive log -/
structure Rec where
  name : Str
  renamed : Str
  hash : Str
  size : Int
  time : Int
deriving DecidableEq, Repr

/-- one record of the send log -/
structure SentRec where
  name : Str
  hash : Str
  size : Int
  time : Int
  ms : Int
deriving DecidableEq, Repr

/-- log/local.go `Received`: `fmt.Sprintf("%s:%s:%s:%d:%d:", name, renamed, hash, size, now)`. -/
def fmtReceived (r : Rec) : Str :=
  r.name ++ ':' :: (r.renamed ++ ':' :: (r.hash ++ ':' :: (fmtInt r.size ++ ':' :: (fmtInt r.time ++ [':']))))

/-- log/local.go `Sent`: `fmt.Sprintf("%s:%s:%d:%d: %d ms", name, hash, size, now, ms)`. -/
def fmtSent (r : SentRec) : Str :=
  r.name ++ ':' :: (r.hash ++ ':' :: (fmtInt r.size ++ ':' :: (fmtInt r.time ++ ':' :: ' ' :: (fmtInt r.ms ++ [' ', 'm', 's']))))

/-! ## the log directory -/

/-- append-only history of the directory: `(day file, bytes appended)`, oldest first -/
abbrev Store := List (Int × Str)

/-- `rollingFile.log`: `logger.Println(msg)` appends the message and a newline to the
    file of the day (the day is that of the writer's clock, a parameter here). -/
def logLine (st : Store) (day : Int) (msg : Str) : Store := st ++ [(day, msg ++ ['\n'])]

/-- bytes of the day file -/
def content (st : Store) (day : Int) : Str :=
  (st.filter (fun e => e.1 == day)).flatMap (fun e => e.2)

/-- lines read from the day file by `eachLine` and by `fileutil.FindLine` -/
def fileLines (st : Store) (day : Int) : List Str := scanLines (content st day)

/-! ## rollingFile.each -/

/-- `getPath`: the day number stands for `<root>/YYYYMM/DD` (UTC). -/
def dayOf (t : Int) : Int := t / 86400

/-- the loop of `each` for `offset > 0`: visit, stop once the visited time is after `stop`,
    else add 24 h. The first argument is fuel (number of further rounds allowed). -/
def visitFwdAux : Nat → Int → Int → List Int
  | 0, t, _ => [t]
  | f + 1, t, stop => t :: (if stop < t then [] else visitFwdAux f (t + 86400) stop)

/-- the loop of `each` for `offset < 0`. -/
def visitBwdAux : Nat → Int → Int → List Int
  | 0, t, _ => [t]
  | f + 1, t, stop => t :: (if t < stop then [] else visitBwdAux f (t - 86400) stop)

/-- forward loop with enough fuel: the loop ends after at most `(stop - t) / 86400 + 1`
    further rounds (proved in Props/C18 `visitFwd_spec`). -/
def visitFwd (t stop : Int) : List Int := visitFwdAux ((stop - t) / 86400 + 1).toNat t stop

/-- backward loop with enough fuel. -/
def visitBwd (t stop : Int) : List Int := visitBwdAux ((t - stop) / 86400 + 1).toNat t stop

/-- the times at which `each` calls `getPath`, for resolved (non-zero) arguments. -/
def eachTimes (start stop : Int) : List Int :=
  if start = stop then []
  else if stop < start then visitBwd start stop
  else visitFwd start stop

/-- `each` replaces a zero `start` by a first clock reading and a zero `stop` by a second
    one (`none` = `time.Time{}`). -/
def resolve (t : Option Int) (now : Int) : Int := t.getD now

/-- the day files `each` hands to its handler, in order. -/
def visitedDays (start stop : Int) : List Int := (eachTimes start stop).map dayOf

/-- `visitedDays` with the zero-time rule; `now1 ≤ now2` are the two clock readings. -/
def visitedDaysZ (start stop : Option Int) (now1 now2 : Int) : List Int :=
  visitedDays (resolve start now1) (resolve stop now2)

/-! ## the look-up after the repair (log/local.go `wasWritten`) -/

/-- the handler `wasWritten` gives to `eachLine`: the line starts with `name + ":"`, and if a
    hash is asked for, field `hashIdx` of the rest of the line (split at `:`) equals it. -/
def matchRecord (name hash : Str) (hashIdx : Nat) (line : Str) : Bool :=
  match stripPrefix (name ++ [':']) line with
  | none => false
  | some rest =>
    if hash.isEmpty then true
    else match (splitOn ':' rest)[hashIdx]? with
      | some f => f == hash
      | none => false

/-- `eachLine` with a handler that keeps no state: true iff the handler accepts some line
    of some visited day file. -/
def anyLine (st : Store) (h : Str → Bool) (start stop : Int) : Bool :=
  (visitedDays start stop).any (fun d => (fileLines st d).any h)

/-- `wasWritten(relPath, hash, hashField, after, before)`. -/
def search (st : Store) (name hash : Str) (hashIdx : Nat) (start stop : Int) : Bool :=
  anyLine st (matchRecord name hash hashIdx) start stop

/-- `WasReceived`: the hash is the field after the rename. -/
def wasReceived (st : Store) (name hash : Str) (start stop : Int) : Bool :=
  search st name hash 1 start stop

/-- `WasSent`: the hash is the field after the name. -/
def wasSent (st : Store) (name hash : Str) (start stop : Int) : Bool :=
  search st name hash 0 start stop

/-! ## the look-up before the repair (`rollingFile.search` + `fileutil.FindLine`) -/

/-- `fileutil.FindLine`: the first line that contains `b`, else the empty string. -/
def findLine (lines : List Str) (b : Str) : Str := (lines.find? (isInfix b)).getD []

/-- `rollingFile.search(text, start, stop)` as it was: per visited day only the first line
    containing `text[0]` is examined; it must contain every other text. -/
def searchOrig (st : Store) (text : List Str) (start stop : Int) : Bool :=
  match text with
  | [] => false
  | b :: more =>
    (visitedDays start stop).any (fun d =>
      let line := findLine (fileLines st d) b
      if line.isEmpty then false else more.all (fun t => isInfix t line))

/-- `wasWritten` as it was: texts `relPath` and, if a hash is given, `":" + hash + ":"`. -/
def wasWrittenOrig (st : Store) (name hash : Str) (start stop : Int) : Bool :=
  searchOrig st (name :: (if hash.isEmpty then [] else [':' :: (hash ++ [':'])])) start stop

/-! ## Parse -/

/-- the body of the handler in `FileIO.Parse`: `none` = fewer than four fields (line
    skipped); five or more fields = a record with a rename. -/
def parseLine (line : Str) : Option Rec :=
  match splitOn ':' line with
  | name :: hash :: size :: time :: [] =>
    some ⟨name, [], hash, atoi size, atoi time⟩
  | name :: renamed :: hash :: size :: time :: _ =>
    some ⟨name, renamed, hash, atoi size, atoi time⟩
  | _ => none

/-- all lines `eachLine` reads, in order -/
def allLines (st : Store) (start stop : Int) : List Str :=
  (visitedDays start stop).flatMap (fileLines st)

/-- the records `Parse` hands to a handler that never stops the replay -/
def parseLog (st : Store) (start stop : Int) : List Rec :=
  (allLines st start stop).filterMap parseLine

/-- the records handed to a handler that answers `true` (stop) at its `limit`-th call
    (`limit = 0`: never). -/
def parseLogLimit (st : Store) (start stop : Int) (limit : Nat) : List Rec :=
  if limit = 0 then parseLog st start stop else (parseLog st start stop).take limit

end LogFmt
end Sts
