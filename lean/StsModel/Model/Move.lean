/-
  Byte-level model of fileutil/fileutil.go `Move` and `Copy`: the last step of a delivery
  (stage.putFileAway moves the validated `.wait` file into the final directory).

  The disk is three names: `src` (the staged `.wait` file), `dst` (the target in the final
  directory) and `lck` (`dst + ".lck"`, fileutil.LockExt), plus the flag `cross`: the two
  directories are on different file systems, so `os.Rename(src, dst)` fails (EXDEV).

  Move and Copy are lists of primitive steps, one per system call (a write of n bytes is n steps of
  one byte: a crash may leave ANY prefix of the bytes written).  `run` performs all of them, `cut k`
  the first k and then the process dies.  A crash is a process death: what the system calls did so
  far stays (no fsync is modelled, the code has none).

  Independent of Model/Stage*.lean (which models the same-file-system rename as the single
  primitive `renWaitFinal`).  Core Lean only (linked into `stsdrv`).
-/
namespace Sts.Move

abbrev Bytes := List UInt8

/-- the three names and the configuration flag -/
structure Disk where
  src : Option Bytes := none
  dst : Option Bytes := none
  lck : Option Bytes := none
  /-- the lock name is taken by a DIRECTORY (then `lck = none`): `os.Create(dst+".lck")` fails with
      EISDIR - the one failure of Copy that is modelled (the cheapest one to provoke on real files) -/
  lckDir : Bool := false
  /-- stage area and final directory on different file systems: rename(src, dst) fails -/
  cross : Bool := false
deriving DecidableEq, Repr

/-- one system call of Move / Copy -/
inductive Prim
  /-- `os.Rename(src, dst)` succeeding: atomic, replaces an existing dst -/
  | renameSrcDst
  /-- `os.Rename(src, dst)` failing (EXDEV, or ENOENT when src is missing): no effect -/
  | renameFail
  /-- `os.Stat(src)`: no effect -/
  | statSrc
  /-- Copy: `os.Open(src)`: no effect -/
  | openSrc
  /-- Copy: `os.Create(dst+".lck")` = `OpenFile(O_RDWR|O_CREATE|O_TRUNC)` when `trunc`; with
      `trunc = false` the open of the seeded variant C01e (`O_WRONLY|O_CREATE`) -/
  | createLck (trunc : Bool)
  /-- Copy: `os.Create(dst+".lck")` failing (the name is a directory): no effect -/
  | createFail
  /-- Copy: one byte of `io.Copy`'s writes, at the descriptor's offset `off` -/
  | writeLck (off : Nat) (x : UInt8)
  /-- Copy: deferred `Close` of both descriptors: no effect on the names -/
  | closeLck
  /-- `os.Remove(src)` -/
  | removeSrc
  /-- `os.Rename(dst+".lck", dst)`: atomic, replaces an existing dst -/
  | renameLckDst
deriving DecidableEq, Repr

/-- pwrite of one byte at `off`: overwrites, or extends the file (a gap would read as zeros) -/
def pwrite (l : Bytes) (off : Nat) (x : UInt8) : Bytes :=
  l.take off ++ List.replicate (off - l.length) 0 ++ x :: l.drop (off + 1)

def applyPrim (d : Disk) : Prim → Disk
  | .renameSrcDst =>
    match d.src with
    | some b => { d with src := none, dst := some b }
    | none => d
  | .renameFail => d
  | .statSrc => d
  | .openSrc => d
  | .createLck trunc =>
    match d.lck with
    | none => { d with lck := some [] }
    | some _ => if trunc then { d with lck := some [] } else d
  | .writeLck off x =>
    match d.lck with
    | some l => { d with lck := some (pwrite l off x) }
    | none => d
  | .createFail => d
  | .closeLck => d
  | .removeSrc => { d with src := none }
  | .renameLckDst =>
    match d.lck with
    | some l => { d with lck := none, dst := some l }
    | none => d

/-- `io.Copy(fpDst, fpSrc)`: the bytes of the source in order, from the descriptor's offset on -/
def writes : Nat → Bytes → List Prim
  | _, [] => []
  | off, x :: xs => .writeLck off x :: writes (off + 1) xs

/-- fileutil.go `Copy(src, dst+".lck")` for a source holding `b`:
    os.Open(src); os.Create(dst); io.Copy; deferred Close, Close. -/
def copyPrims (trunc : Bool) (b : Bytes) : List Prim :=
  [.openSrc, .createLck trunc] ++ writes 0 b ++ [.closeLck]

/-- the order of the last two system calls of the copy path.
    `removeFirst`: fileutil.go as found (`os.Remove(src)`, then `os.Rename(dst+".lck", dst)`);
    `renameFirst`: after the proposed repair fix-move-order (`os.Rename(dst+".lck", dst)`, then
    `os.Remove(src)`).  The harness observes which of the two the code under test has (is src still
    there at the hook point fileutil.d.move.lck?) and tells the driver. -/
inductive Order
  | removeFirst
  | renameFirst
deriving DecidableEq, Repr

def tailPrims : Order → List Prim
  | .removeFirst => [.removeSrc, .renameLckDst]
  | .renameFirst => [.renameLckDst, .removeSrc]

/-- what Move returns: nil, the error of `os.Stat(src)` (src missing), or the error of Copy's
    `os.Create` (the lock name is a directory) -/
inductive Res
  | ok
  | noent
  | isdir
deriving DecidableEq, Repr

/-- fileutil.go `Move(src, dst)`:

      if err = os.Rename(src, dst); err == nil { return nil }
      if _, err = os.Stat(src); err != nil { return err }
      if err = Copy(src, dst+LockExt); err != nil { return err }
      if err = os.Remove(src); err != nil { return err }
      if err = os.Rename(dst+LockExt, dst); err != nil { return err }
      return nil

    (Of the errors of Copy only a failing os.Create - the lock name is a directory - is modelled;
    a failing write - full disk -, errors of Remove and of the second Rename are outside the model.)  `trunc` selects the open mode of Copy's destination, `ord` the
    order of Remove and the second Rename. -/
def plan (trunc : Bool) (ord : Order) (d : Disk) : List Prim × Res :=
  match d.src with
  | none => ([.renameFail, .statSrc], .noent)
  | some b =>
    if d.cross then
      if d.lckDir then ([.renameFail, .statSrc, .openSrc, .createFail], .isdir)
      else ([.renameFail, .statSrc] ++ copyPrims trunc b ++ tailPrims ord, .ok)
    else ([.renameSrcDst], .ok)

def movePrims (trunc : Bool) (ord : Order) (d : Disk) : List Prim := (plan trunc ord d).1

def run (d : Disk) (ps : List Prim) : Disk := ps.foldl applyPrim d

/-- the first `k` primitive steps (then the process dies) -/
def cut (k : Nat) (ps : List Prim) : List Prim := ps.take k

/-- Move as it is in the code (Copy truncates) -/
def move (ord : Order) (d : Disk) : Disk := run d (movePrims true ord d)

def moveRes (d : Disk) : Res := (plan true .removeFirst d).2

/-- the disk a crash after the first `k` system calls of Move leaves -/
def moveCut (ord : Order) (k : Nat) (d : Disk) : Disk := run d (cut k (movePrims true ord d))

/-- the seeded variant C01e: Copy opens its destination without O_TRUNC -/
def copyNoTrunc (b : Bytes) : List Prim := copyPrims false b

def moveNoTrunc (d : Disk) : Disk := run d (movePrims false .removeFirst d)

/-! ### positions of the hook points in the step list (for crash images taken on the real code) -/

/-- number of steps done when a hook point is reached; `none`: the point is not on the path taken.
    `created`: fileutil.copy.created (after os.Create in Copy), `written`: fileutil.copy.written
    (after io.Copy), `lck`: fileutil.d.move.lck (directly before os.Rename(dst+".lck", dst)),
    `renamed`: fileutil.d.move.renamed (directly after it), `done`: fileutil.d.move.done. -/
def hookPos (ord : Order) (d : Disk) (point : String) : Option Nat :=
  match d.src with
  | none => none
  | some b =>
    if d.cross then
      if d.lckDir then none
      else if point == "created" then some 4
      else if point == "written" then some (4 + b.length)
      else if point == "lck" then some (4 + b.length + (match ord with | .removeFirst => 2 | .renameFirst => 1))
      else if point == "renamed" then some (4 + b.length + (match ord with | .removeFirst => 3 | .renameFirst => 2))
      else if point == "done" then some (4 + b.length + 3)
      else none
    else if point == "done" then some 1 else none

/-! ### closed forms (proved equal to `move` / `moveCut` in Props/C01Move.lean; the driver uses them
    because a step per byte costs quadratic time on the list representation) -/

def moveClosed (d : Disk) : Disk :=
  match d.src with
  | none => d
  | some b =>
    if d.cross then
      if d.lckDir then d else { d with src := none, dst := some b, lck := none }
    else { d with src := none, dst := some b }

def cutClosed (ord : Order) (k : Nat) (d : Disk) : Disk :=
  match d.src with
  | none => d
  | some b =>
    if d.cross then
      if d.lckDir then d
      else if k < 4 then d
      else if k ≤ 4 + b.length then { d with lck := some (b.take (k - 4)) }
      else if k = 4 + b.length + 1 then { d with lck := some b }
      else if k = 4 + b.length + 2 then
        (match ord with
         | .removeFirst => { d with src := none, lck := some b }
         | .renameFirst => { d with dst := some b, lck := none })
      else { d with src := none, dst := some b, lck := none }
    else if k = 0 then d else { d with src := none, dst := some b }

end Sts.Move
