/-
  Model of how records reach the day files of the transfer logs: log/local.go `NewFileIO`
  (the writer goroutine, the two unbuffered channels `logCh` / `loggedCh`), `Sent` /
  `Received` (format the line, send it on `logCh`, wait on `loggedCh`) and
  `rollingFile.log` / `rotate` (re-open the file of the day in append mode, one `Println`).

  The directory itself (`Store`, `logLine`, `content`) and the look-ups are those of
  Model/LogFmt.lean; this file only adds the concurrent part:

  * `k` client goroutines; client `i` has a list of records to log, in its program order
    (`todo[i]`). A call of `Received` / `Sent` is the pair of steps `hand i` … `ack i`.
  * one writer goroutine (the `go func` of `NewFileIO`) with four program positions
    (`WPc`): waiting in `range f.logCh`, holding a line, file rotated, line printed
    (about to send on `loggedCh`).
  * a step of the system is one of `Step`; `step` says whether it is enabled and what it
    does; a schedule is a list of steps (`run`), i.e. an arbitrary interleaving.
  * every record carries the day the writer's clock shows when `rotate()` is called for it
    (`getCurrPath()` reads `time.Now()`): as in `LogFmt.logLine` the clock is a parameter,
    here attached to the record as a prophecy value. Quantifying over all labellings covers
    every behaviour of the clock (the record's own time stamp, formatted by the client, is
    part of the line and may name another day).
  * `rf.fh.Sync()` after the `Println` (`keepInSync`) has no effect on the content and is
    not a step.

  What the model takes from outside (tie T3, `Generated/LogWriter.lean`, obligations in
  Props/C18Writer.lean): only the writer goroutine calls `rollingFile.log`; `Sent` and
  `Received` touch the logger only through the channels; the channels are unbuffered; the
  day file is opened with `O_APPEND|O_CREATE` for writing; `log` makes one `Println` of the
  whole message. Trusted beyond that: Go's channel semantics, the semantics of `O_APPEND`
  (`appendWrite` / `twoHandles` below say what is used of it) and that one `Println` of a
  `log.Logger` is one `Write` call of the line with its newline (documented for package log).
-/
import StsModel.Model.LogFmt

namespace Sts
namespace LogWriter
open Sts.LogFmt

/-- what travels through `logCh`, with the clock reading of the writer attached:
    (day `rotate()` will compute for this line, the formatted line) -/
abbrev Item := Int × Str

/-- program position of the writer goroutine of `NewFileIO`:
    `for msg := range f.logCh { f.logger.log(msg); f.loggedCh <- true }` -/
inductive WPc where
  /-- blocked in `range f.logCh` -/
  | idle
  /-- `msg` received, `rf.log(msg)` not yet started -/
  | got (x : Item)
  /-- `rf.rotate()` done -/
  | rotated (x : Item)
  /-- `rf.logger.Println(msg)` (and the optional `Sync`) done, blocked in `f.loggedCh <- true` -/
  | logged
deriving DecidableEq, Repr

/-- the whole system: clients, writer goroutine, `rollingFile`, directory -/
structure State (α : Type) where
  /-- per client goroutine: the records whose `Received` / `Sent` call has not started yet,
      each with the clock reading the writer will see for it -/
  todo : List (List (Int × α))
  /-- the clients blocked in `<-f.loggedCh` (their line is handed over, the call has not returned) -/
  blocked : List Nat
  /-- the writer goroutine -/
  w : WPc
  /-- `rf.path` / `rf.fh`: the day file the `rollingFile` holds open -/
  path : Option Int
  /-- the log directory -/
  files : Store

/-- the atomic steps of the system -/
inductive Step where
  /-- client `i`: `f.logCh <- fmt.Sprintf(...)` meets the writer's `range f.logCh`
      (unbuffered channel: one rendezvous) -/
  | hand (i : Nat)
  /-- writer: `rf.rotate()` -/
  | rotate
  /-- writer: `rf.logger.Println(msg)`, one `Write` of `msg + "\n"` on the append-mode handle -/
  | println
  /-- writer's `f.loggedCh <- true` meets client `i`'s `<-f.loggedCh` -/
  | ack (i : Nat)
deriving DecidableEq, Repr

variable {α : Type}

/-- `Received` / `Sent` up to and including the channel send. Enabled when the writer is in
    `range f.logCh`, client `i` exists, has a record left and is not inside a call already. -/
def hand (fmt : α → Str) (s : State α) (i : Nat) : Option (State α) :=
  match s.w, s.todo[i]? with
  | .idle, some (e :: rest) =>
    if s.blocked.contains i then none
    else some { s with todo := s.todo.set i rest, blocked := i :: s.blocked, w := .got (e.1, fmt e.2) }
  | _, _ => none

/-- `rollingFile.rotate`: after it `rf.path` is the path of the current day and `rf.fh` an
    append-mode handle on it (re-opened or kept; the file is created if missing). -/
def rotate (s : State α) : Option (State α) :=
  match s.w with
  | .got x => some { s with path := some x.1, w := .rotated x }
  | _ => none

/-- `rf.logger.Println(msg)`: `LogFmt.logLine` on the file `rf.fh` is open on. -/
def println (s : State α) : Option (State α) :=
  match s.w, s.path with
  | .rotated x, some p => some { s with files := logLine s.files p x.2, w := .logged }
  | _, _ => none

/-- the acknowledgement: enabled when the writer is in `f.loggedCh <- true` and client `i`
    is in `<-f.loggedCh`. -/
def ack (s : State α) (i : Nat) : Option (State α) :=
  match s.w with
  | .logged =>
    if s.blocked.contains i then some { s with blocked := s.blocked.erase i, w := .idle } else none
  | _ => none

/-- one step; `none` = not enabled -/
def step (fmt : α → Str) (s : State α) : Step → Option (State α)
  | .hand i => hand fmt s i
  | .rotate => rotate s
  | .println => println s
  | .ack i => ack s i

/-- a schedule: any sequence of enabled steps -/
def run (fmt : α → Str) (s : State α) : List Step → Option (State α)
  | [] => some s
  | t :: ts =>
    match step fmt s t with
    | some s' => run fmt s' ts
    | none => none

/-- start: nothing handed over, logger just created (`rf.fh == nil`) on a directory that
    holds `st0` already -/
def init (cs : List (List (Int × α))) (st0 : Store) : State α :=
  { todo := cs, blocked := [], w := .idle, path := none, files := st0 }

/-- every client has logged all its records and the writer is back in `range f.logCh` -/
def done (s : State α) : Bool :=
  s.w == .idle && s.todo.all List.isEmpty

/-- position of the writer inside one round, counted backwards -/
def WPc.rank : WPc → Nat
  | .idle => 0
  | .got _ => 3
  | .rotated _ => 2
  | .logged => 1

/-- number of steps still to come: four per record not handed over plus the rest of the
    writer's round (`steps_count` in Props/C18Writer). -/
def measure (s : State α) : Nat := 4 * s.todo.flatten.length + s.w.rank

/-! ## merges -/

/-- the sub-sequence of a labelled list that carries label `i` -/
def proj {β : Type} (i : Nat) (tm : List (Nat × β)) : List β :=
  (tm.filter (fun e => e.1 == i)).map (fun e => e.2)

/-- `m` is a merge (interleaving) of the sequences `cs`: its elements can be labelled with
    client numbers such that, for every `i`, the elements labelled `i` are exactly
    `cs[i]`, in that order (and nothing is labelled with a number that is no client). -/
def IsMerge {β : Type} (cs : List (List β)) (m : List β) : Prop :=
  ∃ tm : List (Nat × β), tm.map (fun e => e.2) = m ∧ ∀ i, proj i tm = (cs[i]?).getD []

/-! ## what `O_APPEND` is needed for -/

/-- `write(2)` of `data` at offset `off` of a file holding `content` (offset within the file) -/
def writeAt (content : Str) (off : Nat) (data : Str) : Str :=
  content.take off ++ data ++ content.drop (off + data.length)

/-- a handle opened with `O_APPEND`: the offset is moved to the end of the file before each write -/
def appendWrite (content data : Str) : Str := writeAt content content.length data

/-- two loggers on one directory (a second `NewFileIO` while the first handle is still
    open, or a restart): each has its own handle with its own offset, starting at 0.
    `appendMode = false` is `rotate()` without `os.O_APPEND`. Returns the file content
    after logger A wrote `l1` and logger B then wrote `l2`. -/
def twoHandles (appendMode : Bool) (l1 l2 : Str) : Str :=
  let c1 := if appendMode then appendWrite [] (l1 ++ ['\n']) else writeAt [] 0 (l1 ++ ['\n'])
  if appendMode then appendWrite c1 (l2 ++ ['\n']) else writeAt c1 0 (l2 ++ ['\n'])

/-! ## a broken writer: clients write themselves, a record takes two `Write` calls -/

/-- no writer goroutine: every client has the file open (append mode) and writes the line
    and then the newline with two `Write` calls. One day file, `content` its bytes. -/
structure TornState where
  todo : List (List Str)
  /-- clients between their two writes -/
  mid : List Nat
  content : Str
deriving DecidableEq, Repr

inductive TornStep where
  /-- client `i` writes the line -/
  | line (i : Nat)
  /-- client `i` writes the newline -/
  | nl (i : Nat)
deriving DecidableEq, Repr

def tornStep (s : TornState) : TornStep → Option TornState
  | .line i =>
    match s.todo[i]? with
    | some (l :: _) =>
      if s.mid.contains i then none else some { s with mid := i :: s.mid, content := s.content ++ l }
    | _ => none
  | .nl i =>
    match s.todo[i]? with
    | some (_ :: rest) =>
      if s.mid.contains i then
        some { todo := s.todo.set i rest, mid := s.mid.erase i, content := s.content ++ ['\n'] }
      else none
    | _ => none

def tornRun (s : TornState) : List TornStep → Option TornState
  | [] => some s
  | t :: ts =>
    match tornStep s t with
    | some s' => tornRun s' ts
    | none => none

/-! ## tie T3: the shape of log/local.go the model was written against

  Expected values of the facts in `Generated/LogWriter.lean` (written by
  /verif/extract/logwriter.go from /repo/log/*.go on every run). The obligations are in
  Props/C18Writer.lean. -/

namespace Expected

/-- `make(chan …)`: (function, field, type, capacity; `0` = unbuffered) -/
def chanMakes : List (String × String × String × String) :=
  [("NewFileIO", "logCh", "chan string", "0"),
   ("NewFileIO", "loggedCh", "chan bool", "0"),
   ("NewGeneral", "logCh", "chan logMsg", "1000")]

/-- every send, receive, range and close on a channel in package log: (function, kind, channel) -/
def chanOps : List (String × String × String) :=
  [("NewFileIO.func1", "range", "f.logCh"),
   ("NewFileIO.func1", "send", "f.loggedCh"),
   ("FileIO.Sent", "send", "f.logCh"),
   ("FileIO.Sent", "recv", "f.loggedCh"),
   ("FileIO.Received", "send", "f.logCh"),
   ("FileIO.Received", "recv", "f.loggedCh"),
   ("NewGeneral.func2", "range", "g.logCh"),
   ("General.Debug", "send", "g.logCh"),
   ("General.Info", "send", "g.logCh"),
   ("General.Error", "send", "g.logCh")]

/-- `go` statements: (function, what is started) -/
def goStmts : List (String × String) :=
  [("NewFileIO", "NewFileIO.func1"), ("NewGeneral", "NewGeneral.func2")]

/-- where a `rollingFile` is created: (function, arguments of `newRollingFile`) -/
def rollingFiles : List (String × List String) :=
  [("NewFileIO", ["rootDir", "\"\"", "0", "mkdir", "open", "keepInSync"]),
   ("NewGeneral", ["rootDir", "\"\"", "log.Ldate|log.Ltime", "mkdir", "open", "false"])]

/-- every method call on a field named `logger` (the `*rollingFile` of `FileIO` / `General`,
    the `*log.Logger` of `rollingFile`, the package variable of log.go):
    (function, receiver, method, arguments) -/
def loggerCalls : List (String × String × String × List String) :=
  [("NewFileIO.func1", "f.logger", "log", ["msg"]),
   ("FileIO.wasWritten", "f.logger", "eachLine", ["func", "after", "before"]),
   ("FileIO.Parse", "f.logger", "eachLine", ["func", "after", "before"]),
   ("NewGeneral", "g.logger", "eachLine", ["func", "time.Now().Add(-24*time.Hour)", "time.Now()"]),
   ("NewGeneral.func2", "g.logger", "log", ["msg.output..."]),
   ("rollingFile.rotate", "rf.logger", "SetOutput", ["rf.fh"]),
   ("rollingFile.log", "rf.logger", "Println", ["t..."]),
   ("SetDebug", "logger", "setDebug", ["on"]),
   ("GetDebug", "logger", "getDebug", [])]

/-- every use of the file handle `fh`: (function, use) -/
def fhUses : List (String × String) :=
  [("rollingFile.rotate", "cmp:rf.fh==nil"),
   ("rollingFile.rotate", "assign:rf.open"),
   ("rollingFile.rotate", "arg:rf.logger.SetOutput"),
   ("rollingFile.log", "call:Sync"),
   ("rollingFile.close", "cmp:rf.fh!=nil"),
   ("rollingFile.close", "call:Close")]

/-- the calls made by `rollingFile.log`, in statement order -/
def logBody : List String := ["rf.rotate", "rf.logger.Println", "rf.fh.Sync"]

/-- the callers of `rollingFile.rotate` -/
def rotateCallers : List String := ["rollingFile.log"]

/-- what is sent on `logCh` by the transfer-log clients: (function, channel, value) -/
def lineSends : List (String × String × String) :=
  [("FileIO.Sent", "f.logCh",
    "fmt.Sprintf(\"%s:%s:%d:%d: %d ms\", file.GetName(), file.GetHash(), file.GetSize(), time.Now().Unix(), file.TimeMs())"),
   ("FileIO.Received", "f.logCh",
    "fmt.Sprintf(\"%s:%s:%s:%d:%d:\", file.GetName(), file.GetRenamed(), file.GetHash(), file.GetSize(), time.Now().Unix())")]

/-- places where a file is opened or written by other means than the above:
    (function, callee); flags are checked separately -/
def openSites : List (String × String) :=
  [("rollingFile.rotate", "rf.open"), ("rollingFile.eachLine.func1", "os.Open")]

/-- calls that write to something by name (`Write*`, `Fprint*`, `io.Copy`, `os.WriteFile`, …):
    (function, callee, first argument); none of them reaches a day file -/
def otherWrites : List (String × String × String) :=
  [("NewGeneral.func2", "fmt.Fprintln", "os.Stderr")]

/-- flags with which a log file may be opened for writing: append mode, created when
    missing, writable, never truncated -/
def goodWriteFlags (fl : List String) : Bool :=
  fl.contains "os.O_APPEND" && fl.contains "os.O_CREATE" &&
  (fl.contains "os.O_RDWR" || fl.contains "os.O_WRONLY") &&
  !fl.contains "os.O_TRUNC" && !fl.contains "?"

end Expected

end LogWriter
end Sts
