import StsModel.Model.StageOps
import StsModel.Drv.Common
import StsModel.Drv.Ranges
namespace Sts.Drv
open Sts.Stage

/-- the driver's hash: the body itself, printed (`b1.2.3`); the harness maps these strings
    to and from the real MD5s through a dictionary it builds and checks for collisions. -/
def bodyStr (b : Body) : String := ".".intercalate (b.map toString)
def drvH (b : Body) : String := "b" ++ bodyStr b

def parseBody? (s : String) : Option Body :=
  if s == "-" then some [] else (s.splitOn ".").mapM (·.toNat?)

structure StageDrv where
  st : Stage.State := {}
  names : List Name := []       -- every name ever mentioned (sorted, for dumps and walks)
  targets : List String := []   -- every final target ever mentioned
  base : Int := 0               -- time base of the case; every time token is an offset from it
  pend : List (Nat × Name × Meta × Int × Int) := []   -- receptions opened by `ropen`
  /-- the item the finalize handler holds between `isFileReady` and `finalize` (`finhold`) -/
  held : Option (Name × Entry) := none

def insertSorted (x : String) : List String → List String
  | [] => [x]
  | y :: ys => if x == y then y :: ys else if x < y then x :: y :: ys else y :: insertSorted x ys

def StageDrv.note (d : StageDrv) (n : Name) (renamed : String := "") : StageDrv :=
  { d with names := insertSorted n d.names, targets := insertSorted (targetOf n renamed) d.targets }

def fmtCmp (c : Cmp) : String :=
  s!"{esc c.renamed},{esc c.prev},{c.size},{esc c.hash},{fmtRngs c.parts}"

def fmtOptBody (d : Disk) (o : Option Nat) : Option String := o.map (fun i => bodyStr (d.body i))

def section_ (title : String) (items : List String) : String :=
  title ++ "{" ++ ";".intercalate items ++ "}"

def sortStrings (l : List String) : List String := l.foldl (fun acc x => insertSortedDup x acc) []
where insertSortedDup (x : String) : List String → List String
  | [] => [x]
  | y :: ys => if x ≤ y then x :: y :: ys else y :: insertSortedDup x ys

/-- canonical dump of the directories (stage, final) and the receive log -/
def observe (d : StageDrv) : String :=
  let k := d.st.disk
  let per (f : Name → Option Nat) := d.names.filterMap (fun n => (fmtOptBody k (f n)).map (fun b => esc n ++ "=" ++ (if b == "" then "-" else b)))
  let cmps := d.names.filterMap (fun n => (k.cmp n).map (fun c => esc n ++ "=" ++ fmtCmp c))
  let tmps := d.names.filterMap (fun n => (k.cmpTmp n).map (fun _ => esc n))
  let fin := d.targets.filterMap (fun t => (fmtOptBody k (k.final t)).map (fun b => esc t ++ "=" ++ (if b == "" then "-" else b)))
  let lck : List String := []
  let lg := sortStrings (k.log.map (fun r => s!"{esc r.name},{esc r.renamed},{esc r.hash},{r.size}"))
  " ".intercalate [section_ "part" (per k.part), section_ "full" (per k.full), section_ "wait" (per k.wait),
    section_ "cmp" cmps, section_ "cmplck" tmps, section_ "final" fin, section_ "finallck" lck, section_ "log" lg]

/-- memory-side dump used for diagnosis and for the quiescence comparison -/
def observeMem (d : StageDrv) : String :=
  let m := d.st.mem
  let stName : FState → String
    | .received => "received" | .validated => "validated" | .failed => "failed"
    | .finalized => "finalized" | .logged => "logged"
  let cache := d.names.filterMap (fun n => (m.cache n).map (fun e => s!"{esc n}={stName e.state},{esc e.hash},{esc e.prev}"))
  let waits := sortStrings (m.wait.map (fun w => s!"{esc w.2.1}<-{esc w.1}"))
  section_ "cache" cache ++ " " ++ section_ "waiting" waits ++ " " ++
    section_ "vq" (sortStrings (m.vq.map (fun x => esc x.1))) ++ " " ++
    section_ "fq" (sortStrings (m.fq.map (fun x => esc x.1))) ++ " ready=" ++ boolStr m.ready

def runPs (d : StageDrv) (ps : List Prim) : StageDrv := { d with st := Stage.run d.st ps }

/-- run both queues to quiescence in canonical order (validate queue first, FIFO). While the
    finalize handler holds an item (`busy`) nothing leaves the finalize queue: the handler is
    one goroutine. -/
def settle (H : Body → String) (now : Int) (busy : Bool := false) : Nat → Stage.State → Stage.State
  | 0, s => s
  | f + 1, s =>
    match s.mem.vq with
    | (n, _) :: _ => settle H now busy f (Stage.run s (processEffects H s n now))
    | [] =>
      if busy then s else
      match s.mem.fq with
      | (n, _) :: _ => settle H now busy f (Stage.run s (finhEffects s n now))
      | [] => s

def parseTime (d : StageDrv) (tok : String) : Option Int := (parseInt? tok).map (· + d.base)

def parseMeta (renamed prev size hash : String) : Option Meta :=
  (parseInt? size).map (fun sz => { renamed := unesc renamed, prev := unesc prev, size := sz, hash := unesc hash })

/-- the primitive list of an operation line (without `cut`), its answer, and name notes -/
def stageOp (d : StageDrv) (ws : List String) : Option (StageDrv × List Prim × String) :=
  let s := d.st
  match ws with
  | ["prepare", n, size, now] =>
    match parseInt? size, parseTime d now with
    | some size, some now => let n := unesc n
      some (d.note n, prepareEffects s n size now, "ok")
    | _, _ => none
  | ["recv", n, renamed, prev, size, hash, beg, fin, data, now] =>
    match parseMeta renamed prev size hash, parseInt? beg, parseInt? fin, parseBody? data, parseTime d now with
    | some m, some beg, some fin, some data, some now => let n := unesc n
      let d := d.note n m.renamed
      match s.disk.part n with
      | none => some (d, [], "err-open")
      | some i =>
        let p0 := [Prim.writeIno i beg.toNat data now]
        let s1 := Stage.run s p0
        -- Receive fails the part when the reader delivered fewer/more bytes than announced
        if (data.length : Int) ≠ fin - beg then some (d, p0, "err-short")
        else some (d, p0 ++ recordEffects s1 n m beg fin now, "ok")
    | _, _, _, _, _ => none
  | ["ropen", h, n, renamed, prev, size, hash, beg, fin] =>
    match parseNat? h, parseMeta renamed prev size hash, parseInt? beg, parseInt? fin with
    | some h, some m, some beg, some fin => let n := unesc n
      let d := d.note n m.renamed
      match s.disk.part n with
      | some i => some ({ d with pend := (h, n, m, beg, fin) :: d.pend.filter (·.1 != h) }, [Prim.handleOpen h i], "ok")
      | none => some (d, [], "err-open")
    | _, _, _, _ => none
  | ["rwrite", h, data, now] =>
    match parseNat? h, parseBody? data, parseTime d now with
    | some h, some data, some now =>
      match d.pend.find? (·.1 == h), handleIno s.mem h with
      | some (_, n, m, beg, fin), some i =>
        let p0 := [Prim.writeIno i beg.toNat data now, Prim.handleClose h]
        let s1 := Stage.run s p0
        if (data.length : Int) ≠ fin - beg then some ({ d with pend := d.pend.filter (·.1 != h) }, p0, "err-short")
        else some ({ d with pend := d.pend.filter (·.1 != h) }, p0 ++ recordEffects s1 n m beg fin now, "ok")
      | _, _ => some (d, [], "err-handle")
    | _, _, _ => none
  | ["process", n, now] =>
    (parseTime d now).map (fun now => let n := unesc n
      (d, processEffects drvH s n now, if (s.mem.vq.any (·.1 == n)) then "ok" else "err-not-queued"))
  | ["finh", n, now] =>
    (parseTime d now).map (fun now => let n := unesc n
      -- the finalize handler is a single consumer of a FIFO channel: only the head can be taken,
      -- and only when the handler is not held in the middle of an earlier item
      if d.held.isSome then (d, [], "err-busy") else
      match s.mem.fq with
      | [] => (d, [], "err-not-queued")
      | (h, _) :: _ => if h == n then (d, finhEffects s n now, "ok") else (d, [], "err-not-head"))
  -- the finalize handler in two phases: `finhold` runs its decision phase (pre-check without the
  -- file lock, isFileReady) and, when the file is ready, leaves the handler holding the item
  -- right before `finalize` (answer `held`; `ok` when the item was skipped or parked);
  -- `finrelease` lets it go on: `finalize` on the state of THAT moment.
  | ["finhold", n, now] =>
    (parseTime d now).map (fun now => let n := unesc n
      if d.held.isSome then (d, [], "err-busy") else
      match s.mem.fq with
      | [] => (d, [], "err-not-queued")
      | (h, _) :: _ =>
        if h == n then
          match finhPending s n now with
          | some e => ({ d with held := some (n, e) }, finhDecideEffects s n now, "held")
          | none => (d, finhDecideEffects s n now, "ok")
        else (d, [], "err-not-head"))
  | ["finrelease", n, now] =>
    (parseTime d now).map (fun now => let n := unesc n
      match d.held with
      | some (m, e) =>
        if m == n then ({ d with held := none }, finhDoEffects s n e now, "ok")
        else (d, [], "err-not-held")
      | none => (d, [], "err-not-held"))
  | ["firetimer", n] => let n := unesc n
    some (d, timerEffects s n, if s.mem.timers.contains n then "ok" else "err-no-timer")
  | ["consume", t] => some (d, [Prim.rmFinal (unesc t)], "ok")
  | ["corrupt", n, ext, pos, v] =>
    match parseNat? pos, parseNat? v with
    | some pos, some v =>
      match inoOf s.disk (unesc n) ext with
      | some i => some (d, [Prim.corrupt i pos v], "ok")
      | none => some (d, [], "err-nofile")
    | _, _ => none
  | ["chtime", n, ext, t] =>
    match parseTime d t with
    | some t => let n := unesc n
      if ext == "cmp" then some (d, [Prim.setCmpMtime n t], "ok")
      else match inoOf s.disk n ext with
        | some i => some (d, [Prim.setMtime i t], "ok")
        | none => some (d, [], "err-nofile")
    | none => none
  | "recover" :: now :: names =>
    (parseTime d now).map (fun now => (d, recoverEffects drvH s now (names.map unesc), "ok"))
  | "cleanstrays" :: now :: names =>
    (parseTime d now).map (fun now => (d, cleanStraysEffects s now (names.map unesc), "ok"))
  | ["cleanwaiting"] => some (d, cleanWaitingEffects s d.names, "ok")
  | ["cleancache", now] =>
    (parseTime d now).map (fun now => (d, cleanCacheEffects s now d.names, "ok"))
  | ["oldlog", n, renamed, hash, size, t] =>
    -- a record written by an earlier run of the receiver
    match parseInt? size, parseTime d t with
    | some size, some t => let n := unesc n
      some (d.note n (unesc renamed), [Prim.logAppend ⟨n, unesc renamed, unesc hash, size, t, ""⟩], "ok")
    | _, _ => none
  | _ => none

def applyOp (d : StageDrv) (ws : List String) : StageDrv × String :=
  match stageOp d ws with
  | some (d', ps, ans) => (runPs d' ps, ans)
  | none => (d, "bad-op")

/-- `first` overlapped by the reception `[n, renamed, prev, size, hash, beg, fin, data, now]` -/
def raceWith (d : StageDrv) (first : List String) (second : List String) : StageDrv × String :=
  match second with
  | [n, renamed, prev, size, hash, beg, fin, data, now] =>
    let (d1, a0) := applyOp d ["ropen", "9999", n, renamed, prev, size, hash, beg, fin]
    let (d2, a1) := applyOp d1 first
    if a0 == "ok" then
      let (d3, a2) := applyOp d2 ["rwrite", "9999", data, now]
      (d3, a1 ++ " ;; " ++ a2)
    else (d2, a1 ++ " ;; " ++ a0)
  | _ => (d, "bad-op")

def stageStep (d : StageDrv) (ws : List String) : StageDrv × String :=
  match ws with
  | ["observe"] => (d, observe d)
  | ["mem"] => (d, observeMem d)
  | ["crash"] => ({ d with st := crash d.st, pend := [], held := none }, "ok")
  | ["base", b] =>
    match parseInt? b with
    | some b => ({ d with base := b }, "ok")
    | none => (d, "bad-op")
  | ["settle", now] =>
    match parseTime d now with
    | some now => ({ d with st := settle drvH now d.held.isSome 10000 d.st }, "ok")
    | none => (d, "bad-op")
  | ["received", n, renamed, prev, hash, ftime, beg, fin, now] =>
    match parseTime d ftime, parseInt? beg, parseInt? fin, parseTime d now with
    | some ftime, some beg, some fin, some now =>
      let n := unesc n
      let m : Meta := { renamed := unesc renamed, prev := unesc prev, size := 0, hash := unesc hash }
      let d := d.note n m.renamed
      let s1 := Stage.run d.st (buildCacheEffects d.st (receivedFrom ftime now) now)
      let ans := receivedAnswer s1 n m beg fin
      ({ d with st := Stage.run s1 (receivedEffects s1 n m) }, boolStr ans)
    | _, _, _, _ => (d, "bad-op")
  | "receivedn" :: now :: rest =>
    -- Stage.Received(parts): parts separated by ";;", each n renamed prev hash ftime beg fin
    let rec parts (d : StageDrv) (ws : List String) (fuel : Nat) : Option (StageDrv × List PartQ) :=
      match fuel, ws with
      | 0, _ => none
      | _, [] => some (d, [])
      | fuel + 1, n :: renamed :: prev :: hash :: ftime :: beg :: fin :: tl =>
        match parseTime d ftime, parseInt? beg, parseInt? fin with
        | some ftime, some beg, some fin =>
          let q : PartQ := ⟨unesc n, { renamed := unesc renamed, prev := unesc prev, size := 0, hash := unesc hash }, beg, fin, ftime⟩
          let d := d.note q.n q.m.renamed
          match tl with
          | [] => some (d, [q])
          | ";;" :: tl' => (parts d tl' fuel).map (fun r => (r.1, q :: r.2))
          | _ => none
        | _, _, _ => none
      | _, _ => none
    match parseTime d now, parts d rest (rest.length + 1) with
    | some now, some (d, qs) =>
      if qs.isEmpty then (d, "bad-op")
      else
        let r := receivedCount (askPart now) d.st qs
        ({ d with st := r.2 }, toString r.1)
    | _, _ => (d, "bad-op")
  | ["hammer", k, rounds] =>
    -- K concurrent receptions of parts of a brand-new file, on a stage of its own: every acknowledged part is on
    -- record (the locked region of Receive is atomic in the model: `record_kept`); no effect on this staging area
    match parseNat? k, parseNat? rounds with
    | some k, some r => if 2 ≤ k ∧ k ≤ 8 ∧ 1 ≤ r ∧ r ≤ 2000 then (d, "ok") else (d, "bad-op")
    | _, _ => (d, "bad-op")
  | ["status", n, sent, now] =>
    match parseTime d sent, parseTime d now with
    | some sent, some now =>
      let n := unesc n
      let d := d.note n
      let s1 := Stage.run d.st (buildCacheEffects d.st sent now)
      ({ d with st := s1 }, toString (statusAnswer s1 n))
    | _, _ => (d, "bad-op")
  | ["scan"] =>
    (d, section_ "partials" (d.names.filterMap (fun n => (d.st.disk.cmp n).map (fun c => esc n ++ "=" ++ fmtCmp c))))
  -- two operations overlapping in time (the harness holds the first at a pause point inside
  -- its locked region while the second starts): the second reception opens its partial
  -- first, the first operation runs, then the second writes and records.
  | "racerecv" :: n :: renamed :: prev :: size :: hash :: beg :: fin :: data :: now :: ";;" :: rest =>
    raceWith d ["recv", n, renamed, prev, size, hash, beg, fin, data, now] rest
  | "raceproc" :: n :: now :: ";;" :: rest => raceWith d ["process", n, now] rest
  | "racefin" :: n :: now :: ";;" :: rest => raceWith d ["finh", n, now] rest
  | "cut" :: k :: rest =>
    match parseNat? k, stageOp d rest with
    | some k, some (d', ps, ans) =>
      let s' := crash (Stage.run d'.st (cut k ps))
      ({ d' with st := s', pend := [], held := none }, ans ++ " cut=" ++ toString (min k (durableCount ps)) ++ "/" ++ toString (durableCount ps))
    | _, _ => (d, "bad-op")
  | _ =>
    match stageOp d ws with
    | some (d', ps, ans) => (runPs d' ps, ans)
    | none => (d, "bad-op")

end Sts.Drv
