import StsModel.Model.Chunk
import StsModel.Model.Bin
import StsModel.Drv.Ranges
namespace Sts.Drv

/-- component `chunkbin`: the file being allocated, the current bin and the chunks
    (binnables) created so far, by name. After a successful `split` the current bin is the
    tail, as in handleSendError (`payload = next`); the head is only printed (in the code it
    goes straight to chTransmitted and is never added to again). -/
structure CBState where
  file : Option SFile := none
  bin : Option Bin := none
  chunks : List Chunk := []

def fmtPart (p : Part) : String := s!"{esc p.name}:{p.beg}:{p.fin}"

def fmtParts (ps : List Part) : String :=
  if ps.isEmpty then "-" else ",".intercalate (ps.map fmtPart)

def fmtBin (b : Bin) : String :=
  s!"cap={b.capacity} fluff={b.fluff} bytes={b.bytes} full={boolStr b.isFull} parts={fmtParts b.parts}"

def fmtChunks (rs : List Rng) : String :=
  if rs.isEmpty then "-" else " ".intercalate (rs.map (fun r => s!"{r.beg}:{r.fin - r.beg}"))

def findChunk (cs : List Chunk) (n : String) : Option Chunk := cs.find? (·.name == n)

def setChunk (cs : List Chunk) (c : Chunk) : List Chunk :=
  c :: cs.filter (·.name != c.name)

def parseItem (w : String) : Option (Option Chunk) :=
  if w == "T" then some none else
  match w.splitOn ":" with
  | [n, b, l] =>
    match parseInt? b, parseInt? l with
    | some b, some l => some (some ⟨unesc n, b, l, 0⟩)
    | _, _ => none
  | _ => none

/-- `name:size` (plain file) or `name:size:b-e,b-e,…` (resumed file; `name:size:` = no
    missing range) -/
def parseRange (w : String) : Option Rng :=
  match w.splitOn "~" with
  | [b, e] =>
    match parseInt? b, parseInt? e with
    | some b, some e => some ⟨b, e⟩
    | _, _ => none
  | _ => none

def parseQFile (w : String) : Option (String × SFile) :=
  match w.splitOn ":" with
  | [n, sz] => (parseInt? sz).map (fun sz => (unesc n, SFile.plain ⟨sz, 0⟩))
  | [n, sz, rs] =>
    match parseInt? sz, (if rs == "" then some [] else (rs.splitOn ",").mapM parseRange) with
    | some sz, some l => some (unesc n, SFile.resumed sz ⟨l, 0, 0⟩)
    | _, _ => none
  | _ => none

/-- the protocol's guard for `qpack`: names strictly ascending (queue order = given order),
    chunk size not negative (positive if a resumed file is present), at most 1000 chunks per
    file. -/
def qfileChunks (c : Int) : SFile → Int
  | .plain f => if c == 0 || f.size ≤ 0 then 1 else f.size / c + 1
  | .resumed _ r => if c == 0 then 1001 else
      r.left.foldl (fun acc x => acc + (if x.fin > x.beg then (x.fin - x.beg) / c else 0) + 1) 0

def namesAscending : List String → Bool
  | a :: b :: rest => decide (a < b) && namesAscending (b :: rest)
  | _ => true

def qpackOK (c : Int) (files : List (String × SFile)) : Bool :=
  decide (c ≥ 0) && namesAscending (files.map (·.1)) && files.all (fun nf => decide (qfileChunks c nf.2 ≤ 1000))

def fmtItems (cs : List Chunk) : String :=
  if cs.isEmpty then "-" else " ".intercalate (cs.map (fun c => s!"{esc c.name}:{c.beg}:{c.len}"))

def fmtPayloads (bs : List Bin) : String :=
  if bs.isEmpty then "-" else
  " ".intercalate (bs.map (fun b => s!"[{b.bytes}/{b.capacity}+{b.fluff} {fmtParts b.parts}]"))

def chunkbinStep (s : CBState) (ws : List String) : CBState × String :=
  match ws with
  | ["file", sz] =>
    match parseInt? sz with
    | some sz => ({ s with file := some (.plain ⟨sz, 0⟩) }, "ok")
    | none => (s, "bad-op")
  | "resume" :: sz :: rest =>
    match parseInt? sz, parseInts? rest >>= pairUp with
    | some sz, some l => ({ s with file := some (.resumed sz ⟨l, 0, 0⟩) }, "ok")
    | _, _ => (s, "bad-op")
  | ["alloc", d] =>
    match parseInt? d, s.file with
    | none, _ => (s, "bad-op")
    | some _, none => (s, "no-file")
    | some d, some f =>
      match f.allocate d with
      | none => (s, "panic")
      | some (f', o, l) => ({ s with file := some f' }, s!"{o} {l} {boolStr f'.isAllocated}")
  | ["status"] =>
    match s.file with
    | none => (s, "no-file")
    | some f => (s, s!"{boolStr f.isAllocated} {f.sendSize}")
  | ["allocall", d, mx] =>
    match parseInt? d, parseNat? mx, s.file with
    | some d, some mx, some f =>
      let r := SFile.run d mx f
      let st := if r.2.isAllocated then "done" else if r.1.length < mx then "panic" else "more"
      ({ s with file := some r.2 }, fmtChunks r.1 ++ " | " ++ st)
    | some _, some _, none => (s, "no-file")
    | _, _, _ => (s, "bad-op")
  | ["bin", c] =>
    match parseInt? c with
    | some c => let b := newBin c; ({ s with bin := some b }, fmtBin b)
    | none => (s, "bad-op")
  | ["chunk", n, b, l] =>
    match parseInt? b, parseInt? l with
    | some b, some l => ({ s with chunks := setChunk s.chunks ⟨unesc n, b, l, 0⟩ }, "ok")
    | _, _ => (s, "bad-op")
  | ["add", n] =>
    match s.bin, findChunk s.chunks (unesc n) with
    | none, _ => (s, "no-bin")
    | some _, none => (s, "no-chunk")
    | some b, some ch =>
      let r := b.add ch
      let ch' := r.2.1
      ({ s with bin := some r.1, chunks := setChunk s.chunks ch' },
        s!"{boolStr r.2.2} {boolStr ch'.isAllocated} {ch'.nextAlloc.1} {ch'.nextAlloc.2} | {fmtBin r.1}")
  | ["split", n] =>
    match parseInt? n, s.bin with
    | none, _ => (s, "bad-op")
    | some _, none => (s, "no-bin")
    | some n, some b =>
      match b.split n with
      | none => (s, "none | " ++ fmtBin b)
      | some (h, t) => ({ s with bin := some t }, fmtBin h ++ " | " ++ fmtBin t)
  | ["remove", i] =>
    match parseNat? i, s.bin with
    | none, _ => (s, "bad-op")
    | some _, none => (s, "no-bin")
    | some i, some b => let b' := b.remove i; ({ s with bin := some b' }, fmtBin b')
  | "pack" :: c :: items =>
    match parseInt? c, items.mapM parseItem with
    | some c, some its => (s, fmtPayloads (pack c its))
    | _, _ => (s, "bad-op")
  | "qpack" :: cap :: c :: files =>
    match parseInt? cap, parseInt? c, files.mapM parseQFile with
    | some cap, some c, some fs =>
      if qpackOK c fs then
        let chunks := popAll c 1001 fs
        (s, fmtItems chunks ++ " | " ++ fmtPayloads (pack cap (chunks.map some)))
      else (s, "bad-op")
    | _, _, _ => (s, "bad-op")
  | _ => (s, "bad-op")

end Sts.Drv
