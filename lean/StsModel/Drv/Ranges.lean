import StsModel.Model.Ranges
import StsModel.Drv.Common
namespace Sts.Drv

def fmtRng (r : Rng) : String := s!"{r.beg}:{r.fin}"
def fmtRngs (rs : List Rng) : String :=
  if rs.isEmpty then "-" else " ".intercalate (rs.map fmtRng)

def pairUp : List Int → Option (List Rng)
  | [] => some []
  | b :: e :: rest => (pairUp rest).map (fun l => ⟨b, e⟩ :: l)
  | _ => none

/-- component `ranges`: state = current record -/
def rangesStep (ps : List Rng) (ws : List String) : List Rng × String :=
  match ws with
  | ["reset"] => ([], "ok")
  | "set" :: rest =>
    match parseInts? rest >>= pairUp with
    | some l => (l, "ok")
    | none => (ps, "bad-op")
  | ["add", b, e] =>
    match parseInt? b, parseInt? e with
    | some b, some e =>
      let r := addPart ps b e
      (r.1, fmtRngs r.1 ++ " | " ++ (match r.2 with | some c => fmtRng c | none => "-"))
    | _, _ => (ps, "bad-op")
  | ["exists", b, e] =>
    match parseInt? b, parseInt? e with
    | some b, some e => (ps, boolStr (partExists ps b e))
    | _, _ => (ps, "bad-op")
  | ["complete", sz] =>
    match parseInt? sz with
    | some sz => (ps, boolStr (isComplete ps sz))
    | none => (ps, "bad-op")
  | ["missing", sz] =>
    match parseInt? sz with
    | some sz => (ps, fmtRngs (missing ps sz))
    | none => (ps, "bad-op")
  | _ => (ps, "bad-op")

end Sts.Drv
