import StsModel.Model.LogFmt
import StsModel.Drv.Common
/-
  Line-protocol driver of component `logfmt` (model side of harness/logfmt.go).

  ops (tokens are %XX-escaped byte strings, `-` = empty; times are unix seconds or `z`
  for the zero time; K is `recv` or `sent` and names the log directory):
    frame <today>                      relative frame: the clock reads noon of day <today>
                                       (without it a zero time is refused: `bad-op`)
    recv <name> <renamed> <hash> <size> <day> <time>     real `Received`, line put into <day>
    sent <name> <hash> <size> <ms> <day> <time>          real `Sent`, line put into <day>
    raw K <day> <bytes>                bytes appended to the day file as they are
    wasrecv <name> <hash> <start> <stop>   /  wassent ...
    parse K <start> <stop> <limit>     records handed to the handler (it stops at <limit>, 0 = never)
    concurrent K <k> <m> <day>         k writers, m records each, canonical order
    live K <name> <hash>               write now, look up now (own directory)
-/
namespace Sts.Drv
open Sts.LogFmt

structure LState where
  recv : Store := []
  sent : Store := []
  frame : Option Int := none

def bytesToStr (bs : List UInt8) : Str := bs.map (fun b => Char.ofNat b.toNat)

/-- token to model string (one Char per byte) -/
def tokStr (s : String) : Str :=
  if s == "-" then [] else bytesToStr (unescBytes s.toList [])

/-- model string to token -/
def strTok (s : Str) : String :=
  if s.isEmpty then "-" else if s == ['-'] then "%2d" else
  s.foldl (fun acc c =>
    if c.isAlphanum ∨ c == '.' ∨ c == '_' ∨ c == '/' ∨ c == '-' then acc.push c
    else (acc.push '%').push (hexDigit (c.toNat / 16)) |>.push (hexDigit (c.toNat % 16))) ""

/-- `z` = zero time -/
def parseTime? (s : String) : Option (Option Int) :=
  if s == "z" then some none else (parseInt? s).map some

def kindStore (s : LState) (k : String) : Option Store :=
  if k == "recv" then some s.recv else if k == "sent" then some s.sent else none

def setStore (s : LState) (k : String) (st : Store) : LState :=
  if k == "recv" then { s with recv := st } else { s with sent := st }

/-- protocol rule shared with the harness: a window with exactly one zero end depends on
    the second of the day at which the clock is read; its answer is compared only if no
    line lies on a day next to today or next to the day of the explicit end. -/
def ambiguous (st : Store) (today : Int) (a b : Option Int) : Bool :=
  match a, b with
  | none, some t | some t, none =>
    let ds := [today - 1, today + 1, dayOf t - 1, dayOf t + 1]
    st.any (fun e => ds.contains e.1)
  | _, _ => false

/-- resolve a window in the current frame: `none` = refused -/
def window (s : LState) (st : Store) (a b : Option Int) : Option (Option (Int × Int)) :=
  match a, b with
  | some x, some y => some (some (x, y))
  | _, _ =>
    match s.frame with
    | none => none
    | some today =>
      if ambiguous st today a b then some none
      else
        let now1 := today * 86400 + 43200
        some (some (resolve a now1, resolve b (now1 + 1)))

def natStr (n : Nat) : Str := (toString n).toList

def concRecv (day : Int) (m g i : Nat) : Rec :=
  ⟨"cw/g".toList ++ natStr g ++ "-f".toList ++ natStr i ++ ".dat".toList,
   if i % 2 = 1 then "ren-".toList ++ natStr i else [],
   'h' :: natStr g ++ 'x' :: natStr i, (g * 1000 + i : Nat), day * 86400 + (g * m + i : Nat)⟩

def concSent (day : Int) (m g i : Nat) : SentRec :=
  ⟨"cw/g".toList ++ natStr g ++ "-f".toList ++ natStr i ++ ".dat".toList,
   'h' :: natStr g ++ 'x' :: natStr i, (g * 1000 + i : Nat), day * 86400 + (g * m + i : Nat), (i : Nat)⟩

def fmtRec (r : Rec) : String :=
  strTok r.name ++ "," ++ strTok r.renamed ++ "," ++ strTok r.hash ++ "," ++ toString r.size ++ "," ++ toString r.time

/-- number of line ends in the log files -/
def linesOf (st : Store) : Nat := (st.map (fun x => (x.2.filter (· == '\n')).length)).sum

def lookup (s : LState) (kind : String) (idx : Nat) (name hash a b : String) : String :=
  match kindStore s kind, parseTime? a, parseTime? b with
  | some st, some a, some b =>
    match window s st a b with
    | none => "bad-op"
    | some none => "ambiguous"
    | some (some (x, y)) => boolStr (search st (tokStr name) (tokStr hash) idx x y)
  | _, _, _ => "bad-op"

def logfmtStep (s : LState) (ws : List String) : LState × String :=
  match ws with
  | ["reset"] => ({}, "ok")
  | ["frame", d] =>
    match parseInt? d with
    | some d => ({ s with frame := some d }, "ok")
    | none => (s, "bad-op")
  | ["recv", name, renamed, hash, size, day, time] =>
    match parseInt? size, parseInt? day, parseInt? time with
    | some size, some day, some time =>
      ({ s with recv := logLine s.recv day (fmtReceived ⟨tokStr name, tokStr renamed, tokStr hash, size, time⟩) }, "ok")
    | _, _, _ => (s, "bad-op")
  | ["sent", name, hash, size, ms, day, time] =>
    match parseInt? size, parseInt? ms, parseInt? day, parseInt? time with
    | some size, some ms, some day, some time =>
      ({ s with sent := logLine s.sent day (fmtSent ⟨tokStr name, tokStr hash, size, time, ms⟩) }, "ok")
    | _, _, _, _ => (s, "bad-op")
  | ["raw", kind, day, bytes] =>
    match kindStore s kind, parseInt? day with
    | some st, some day => (setStore s kind (st ++ [(day, tokStr bytes)]), "ok")
    | _, _ => (s, "bad-op")
  | ["wasrecv", name, hash, a, b] => (s, lookup s "recv" 1 name hash a b)
  | ["wassent", name, hash, a, b] => (s, lookup s "sent" 0 name hash a b)
  | ["parse", kind, a, b, limit] =>
    match kindStore s kind, parseTime? a, parseTime? b, parseNat? limit with
    | some st, some a, some b, some limit =>
      match window s st a b with
      | none => (s, "bad-op")
      | some none => (s, "ambiguous")
      | some (some (x, y)) =>
        let rs := parseLogLimit st x y limit
        (s, " ".intercalate (toString rs.length :: rs.map fmtRec))
    | _, _, _, _ => (s, "bad-op")
  | ["concurrent", kind, k, m, day] =>
    match parseNat? k, parseNat? m, parseInt? day with
    | some k, some m, some day =>
      if k = 0 ∨ m = 0 ∨ k > 16 ∨ m > 64 then (s, "bad-op") else
      let idx := (List.range k).flatMap (fun g => (List.range m).map (fun i => (g, i)))
      if kind == "recv" then
        ({ s with recv := idx.foldl (fun st gi => logLine st day (fmtReceived (concRecv day m gi.1 gi.2))) s.recv },
         s!"ok {k * m}")
      else if kind == "sent" then
        ({ s with sent := idx.foldl (fun st gi => logLine st day (fmtSent (concSent day m gi.1 gi.2))) s.sent },
         s!"ok {k * m}")
      else (s, "bad-op")
    | _, _, _ => (s, "bad-op")
  | ["restart", kind, n1, h1, n2, h2] =>
    -- a record, a restart of the logger (no effect on the log: it only ever appends), a second record
    let now : Int := 43200
    if kind == "recv" then
      let st := logLine (logLine [] 0 (fmtReceived ⟨tokStr n1, [], tokStr h1, 1, now⟩)) 0 (fmtReceived ⟨tokStr n2, [], tokStr h2, 1, now⟩)
      (s, s!"{boolStr (wasReceived st (tokStr n1) (tokStr h1) (now - 3600) (now + 3600))} {boolStr (wasReceived st (tokStr n2) (tokStr h2) (now - 3600) (now + 3600))} {linesOf st}")
    else if kind == "sent" then
      let st := logLine (logLine [] 0 (fmtSent ⟨tokStr n1, tokStr h1, 1, now, 1⟩)) 0 (fmtSent ⟨tokStr n2, tokStr h2, 1, now, 1⟩)
      (s, s!"{boolStr (wasSent st (tokStr n1) (tokStr h1) (now - 3600) (now + 3600))} {boolStr (wasSent st (tokStr n2) (tokStr h2) (now - 3600) (now + 3600))} {linesOf st}")
    else (s, "bad-op")
  | ["live", kind, name, hash] =>
    let now : Int := 43200
    if kind == "recv" then
      let st := logLine [] 0 (fmtReceived ⟨tokStr name, [], tokStr hash, 1, now⟩)
      (s, boolStr (wasReceived st (tokStr name) (tokStr hash) (now - 3600) (now + 3600)))
    else if kind == "sent" then
      let st := logLine [] 0 (fmtSent ⟨tokStr name, tokStr hash, 1, now, 1⟩)
      (s, boolStr (wasSent st (tokStr name) (tokStr hash) (now - 3600) (now + 3600)))
    else (s, "bad-op")
  | _ => (s, "bad-op")

/-- the same protocol answered by the look-up as it was before the repair of F2
    (`rollingFile.search` + `fileutil.FindLine`); used once, by hand, to tie `searchOrig`
    to the unrepaired code. -/
def logfmtOrigStep (s : LState) (ws : List String) : LState × String :=
  let orig (kind name hash a b : String) : String :=
    match kindStore s kind, parseTime? a, parseTime? b with
    | some st, some a, some b =>
      match window s st a b with
      | none => "bad-op"
      | some none => "ambiguous"
      | some (some (x, y)) => boolStr (wasWrittenOrig st (tokStr name) (tokStr hash) x y)
    | _, _, _ => "bad-op"
  match ws with
  | ["wasrecv", name, hash, a, b] => (s, orig "recv" name hash a b)
  | ["wassent", name, hash, a, b] => (s, orig "sent" name hash a b)
  | ["live", kind, name, hash] =>
    let now : Int := 43200
    if kind == "recv" then
      let st := logLine [] 0 (fmtReceived ⟨tokStr name, [], tokStr hash, 1, now⟩)
      (s, boolStr (wasWrittenOrig st (tokStr name) (tokStr hash) (now - 3600) (now + 3600)))
    else if kind == "sent" then
      let st := logLine [] 0 (fmtSent ⟨tokStr name, tokStr hash, 1, now, 1⟩)
      (s, boolStr (wasWrittenOrig st (tokStr name) (tokStr hash) (now - 3600) (now + 3600)))
    else (s, "bad-op")
  | _ => logfmtStep s ws

end Sts.Drv
