/-
  Line-protocol driver helpers (core Lean only). One operation per input line, one
  canonical answer per output line. Unknown or malformed operations answer `bad-op`;
  nothing is ever defaulted.
-/
namespace Sts.Drv

def words (line : String) : List String :=
  (line.trimAscii.toString.splitOn " ").filter (· ≠ "")

def parseInt? (s : String) : Option Int := s.toInt?
def parseNat? (s : String) : Option Nat := s.toNat?

def parseInts? (ws : List String) : Option (List Int) := ws.mapM parseInt?

def boolStr (b : Bool) : String := if b then "true" else "false"

/-- tokens are percent-escaped by the harness so that names may contain spaces etc. -/
def hexVal (c : Char) : Option Nat :=
  if '0' ≤ c ∧ c ≤ '9' then some (c.toNat - '0'.toNat)
  else if 'a' ≤ c ∧ c ≤ 'f' then some (c.toNat - 'a'.toNat + 10)
  else if 'A' ≤ c ∧ c ≤ 'F' then some (c.toNat - 'A'.toNat + 10)
  else none

partial def unescBytes : List Char → List UInt8 → List UInt8
  | [], acc => acc.reverse
  | '%' :: a :: b :: rest, acc =>
    match hexVal a, hexVal b with
    | some x, some y => unescBytes rest ((UInt8.ofNat (x * 16 + y)) :: acc)
    | _, _ => unescBytes (a :: b :: rest) (37 :: acc)
  | c :: rest, acc => unescBytes rest ((String.singleton c).toUTF8.toList.reverse ++ acc)

/-- `%XX`-unescape; `-` alone denotes the empty string. -/
def unesc (s : String) : String :=
  if s == "-" then "" else
  match String.fromUTF8? (ByteArray.mk (unescBytes s.toList []).toArray) with
  | some r => r
  | none => s

def hexDigit (n : Nat) : Char :=
  if n < 10 then Char.ofNat ('0'.toNat + n) else Char.ofNat ('a'.toNat + (n - 10))

/-- escape every byte that is not alphanumeric, dot, underscore, slash or dash; empty string becomes `-` ; a literal
    single `-` is escaped. -/
def esc (s : String) : String :=
  if s == "" then "-" else if s == "-" then "%2d" else
  s.toUTF8.toList.foldl (fun acc b =>
    let c := Char.ofNat b.toNat
    if c.isAlphanum ∨ c == '.' ∨ c == '_' ∨ c == '/' ∨ c == '-' then acc.push c
    else (acc.push '%').push (hexDigit (b.toNat / 16)) |>.push (hexDigit (b.toNat % 16))) ""

/-- generic read-eval-print loop over stdin. A line starting with `#` (case header) is
    echoed and resets the component's state. -/
partial def loop {σ : Type} (step : σ → List String → σ × String) (init s : σ)
    (h : IO.FS.Stream) (out : IO.FS.Stream) : IO Unit := do
  let line ← h.getLine
  if line.isEmpty then
    out.flush
    return ()
  let ws := words line
  match ws with
  | [] => loop step init s h out
  | w :: _ =>
    if w.startsWith "#" then
      out.putStrLn line.trimAscii.toString
      loop step init init h out
    else
      let (s', o) := step s ws
      out.putStrLn o
      loop step init s' h out

def run {σ : Type} (step : σ → List String → σ × String) (init : σ) : IO UInt32 := do
  let i ← IO.getStdin
  let o ← IO.getStdout
  loop step init init i o
  return 0

end Sts.Drv
