import StsModel.Model.Path
import StsModel.Drv.Common
namespace Sts.Drv

/-- fixed symbolic sandbox of the `srcdir` op: the harness reports the real directories
    relative to the sandbox base, the model strips this prefix. -/
def symBase : String := "/B"
def symStage : String := "/B/p1/p2/p3/outer/recv/stage"
def symFinal : String := "/B/p1/p2/p3/outer/recv/final"
def symLogs : String := "/B/p1/p2/p3/outer/recv/logs"

def relToBase (p : String) : String :=
  if p = symBase then "." else
  let pre := symBase ++ "/"
  if pre.toList.isPrefixOf p.toList then String.ofList (p.toList.drop pre.toList.length) else "OUTSIDE:" ++ p

/-- component `path` (stateless) -/
def pathStep (u : Unit) (ws : List String) : Unit × String :=
  match ws with
  | ["clean", p] => (u, esc (cleanStr (unesc p)))
  | "join" :: a :: rest => (u, esc (joinStr ((a :: rest).map unesc)))
  | ["sepconv", sep, name] => (u, esc (sepConvert (unesc sep) (unesc name)))
  | ["sanseg", s] => (u, if sanitizeSeg (unesc s) then "ok" else "err")
  | ["sanrel", s] =>
    (u, match sanitizeRel (unesc s) with
        | some r => "ok " ++ esc r
        | none => "err")
  | ["subpath", a, b] => (u, boolStr (isSubpath (unesc a) (unesc b)))
  | ["rootrel", s] => (u, esc (rootRelativePath (unesc s)))
  | ["normslash", s] => (u, esc (normalizeRepeatedSlashes (unesc s)))
  | ["saferel", s] => (u, boolStr (isSafeRel (unesc s)))
  | ["safesrc", s] => (u, boolStr (isSafeSource (unesc s)))
  | ["confine", root, name] =>
    (u, boolStr (isSafeRel (unesc name)) ++ " " ++ esc (joinStr [unesc root, unesc name]))
  | ["srcdir", s] =>
    let d := sourceDir (unesc s)
    (u, esc (relToBase (joinStr [symStage, d])) ++ " " ++ esc (relToBase (joinStr [symFinal, d])) ++ " " ++
        esc (relToBase (joinStr [symLogs, d])))
  | _ => (u, "bad-op")

end Sts.Drv
