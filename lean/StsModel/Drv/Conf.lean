import StsModel.Model.Conf
import StsModel.Drv.Common
/-
  Driver of component `conf` (property C19). A case builds a written configuration option by
  option, parses it, optionally re-encodes it, and queries effective settings and tag lookups.

    strict on|off                 oracle mode of the harness (no effect on the model)
    table src|tag|tgt             the field table (checked against the real structs)
    source                        append a source
    opt K W / target / topt K W / tags / tag / gopt K W
                                  written options of the last source / its target / its last tag
    parse yaml|json N             decode (N only selects spellings in the harness)
    reenc                         json.Marshal(ClientConf) and json.Unmarshal again
    eff I / efftgt I / efftag I J effective settings (of the current stage)
    tagof I NAME / rtags I / ignores I
                                  the running sender's view of source I
  W tokens: s:ESC n:INT b:true|false l:ESC,ESC,... bad
-/
namespace Sts.Drv
open Sts.Cfg

structure ConfSt where
  srcs : List WSource := []
  eff : Option (List Source) := none
  parsed : Bool := false

def parseW (tok : String) : Option W :=
  if tok == "bad" then some .bad
  else if tok.startsWith "s:" then some (.s (unesc (tok.drop 2).toString))
  else if tok.startsWith "n:" then (parseInt? (tok.drop 2).toString).map .n
  else if tok == "b:true" then some (.b true)
  else if tok == "b:false" then some (.b false)
  else if tok.startsWith "l:" then
    let body := (tok.drop 2).toString
    if body == "" then some (.l []) else some (.l ((body.splitOn ",").map unesc))
  else none

def fmtVal : Val → String
  | .str s => "s:" ++ esc s
  | .num n => s!"n:{n}"
  | .bool b => "b:" ++ boolStr b
  | .ptr none => "nil"
  | .ptr (some t) => "p:" ++ esc t
  | .list none => "nil"
  | .list (some xs) => "l:" ++ ",".intercalate (xs.map esc)

def fmtFld (f : Fld) : String := fmtVal f.v ++ (if f.set then "+" else "")

def keyOf {α : Type} [BEq α] (tbl : List (α × String × String × Kind)) (f : α) : String :=
  match tbl.find? (·.1 == f) with
  | some e => e.2.2.1
  | none => "?"

def fieldOf {α : Type} (tbl : List (α × String × String × Kind)) (key : String) : Option α :=
  (tbl.find? (·.2.2.1 == key)).map (·.1)

def fmtTable {α : Type} (tbl : List (α × String × String × Kind)) (src : Bool) : String :=
  " ".intercalate (tbl.foldr (fun e acc =>
    let line := s!"{e.2.1}:{e.2.2.1}:{e.2.2.2.label}"
    if src && e.2.1 == "PollMaxCount" then line :: "Target:target:struct" :: acc
    else if src && e.2.1 == "Rename" then line :: "Tags:tags:structs" :: acc
    else line :: acc) [])

def updLast {α : Type} (l : List α) (f : α → α) : Option (List α) :=
  match l.reverse with
  | [] => none
  | x :: r => some ((f x :: r).reverse)

def setOpt {α : Type} [DecidableEq α] (o : α → Option W) (f : α) (w : W) : α → Option W :=
  fun g => if g = f then some w else o g

def fmtSource (s : Source) : String :=
  " ".intercalate (allSrc.map (fun f => keyOf srcTable f ++ "=" ++ fmtFld (s.fld f))) ++
  " target=" ++ (if s.target.isSome then "set" else "nil") ++
  " tags=" ++ (match s.tags with | none => "nil" | some ts => toString ts.length)

def fmtTarget (t : Target) : String :=
  " ".intercalate (allTgt.map (fun f => keyOf tgtTable f ++ "=" ++ fmtFld (t.fld f)))

def fmtTag (t : Tag) : String :=
  " ".intercalate (allTag.map (fun f => keyOf tagTable f ++ "=" ++ fmtFld (t.fld f)))

def strFld (f : Fld) : String := match f.v with | .str s => s | _ => ""

/-- what the harness refuses to hand to the real init() (it would need files or a port) -/
def unsupportedInit (s : Source) : Bool :=
  (delimOf s).isNone ||
  (match s.target with
   | none => false
   | some t => (strFld (t.fld .host)).toList.contains ':' || strFld (t.fld .tlsCertPath) != "" ||
       strFld (t.fld .tlsCertBase64) != "")

/-- main/client.go setDefaults refuses: no name, no target, no host -/
def noInit (s : Source) : Bool :=
  strFld (s.fld .name) == "" ||
  (match s.target with | none => true | some t => strFld (t.fld .host) == "")

def withSource (st : ConfSt) (i : String) (k : Source → String) : String :=
  match st.eff, parseNat? i with
  | some l, some i => (match l[i]? with | some s => k s | none => "no-source")
  | none, some _ => "no-conf"
  | _, none => "bad-op"

def withRuntime (st : ConfSt) (i : String) (k : Source → Char → List Tag → String) : String :=
  withSource st i (fun s =>
    if unsupportedInit s then "unsupported"
    else if noInit s then "no-init"
    else match delimOf s with
      | some d => k s d (runtimeTags s)
      | none => "unsupported")

def fmtTagof (s : Source) (d : Char) (rt : List Tag) (name : String) : String :=
  let nm := name.toList
  let g := grouper d rt nm
  let tn := nameToTag d rt nm
  let bin := binSizeOf s
  let q := match qLookup rt tn with
    | some i => (match rt[i]? with
      | some t => let q := qtagOf bin t
        s!"{i}:{q.priority}:{esc q.order}:{q.chunk}:{q.lastDelay}"
      | none => "-")
    | none => "-"
  let f := match fLookup rt tn with
    | some i => (match rt[i]? with
      | some t => let f := ftagOf t
        s!"{i}:{boolStr f.inOrder}:{boolStr f.delete}:{f.deleteDelay}"
      | none => "-")
    | none => "-"
  s!"group={esc (String.ofList g)} tag={esc (String.ofList tn)} q={q} f={f}"

def confStep (st : ConfSt) (ws : List String) : ConfSt × String :=
  let reset (s : ConfSt) : ConfSt := { s with eff := none, parsed := false }
  match ws with
  | ["reset"] => ({}, "ok")
  | ["strict", m] => if m == "on" || m == "off" then (st, "ok") else (st, "bad-op")
  | ["table", "src"] => (st, fmtTable srcTable true)
  | ["table", "tag"] => (st, fmtTable tagTable false)
  | ["table", "tgt"] => (st, fmtTable tgtTable false)
  | ["source"] => (reset { st with srcs := st.srcs ++ [WSource.empty] }, "ok")
  | ["opt", k, w] =>
    match fieldOf srcTable k, parseW w with
    | some f, some w =>
      (match updLast st.srcs (fun s => { s with opt := setOpt s.opt f w }) with
       | some l => (reset { st with srcs := l }, "ok")
       | none => (st, "bad-op"))
    | _, _ => (st, "bad-op")
  | ["target"] =>
    (match updLast st.srcs (fun s => { s with target := some (s.target.getD WTarget.empty) }) with
     | some l => (reset { st with srcs := l }, "ok")
     | none => (st, "bad-op"))
  | ["topt", k, w] =>
    match fieldOf tgtTable k, parseW w with
    | some f, some w =>
      (match updLast st.srcs (fun s =>
          { s with target := some ⟨setOpt (s.target.getD WTarget.empty).opt f w⟩ }) with
       | some l => (reset { st with srcs := l }, "ok")
       | none => (st, "bad-op"))
    | _, _ => (st, "bad-op")
  | ["tags"] =>
    (match updLast st.srcs (fun s => { s with tags := some (s.tags.getD []) }) with
     | some l => (reset { st with srcs := l }, "ok")
     | none => (st, "bad-op"))
  | ["tag"] =>
    (match updLast st.srcs (fun s => { s with tags := some (s.tags.getD [] ++ [WTag.empty]) }) with
     | some l => (reset { st with srcs := l }, "ok")
     | none => (st, "bad-op"))
  | ["gopt", k, w] =>
    match fieldOf tagTable k, parseW w with
    | some f, some w =>
      (match st.srcs.getLast? with
       | some s =>
         (match s.tags.bind (fun ts => updLast ts (fun t => ⟨setOpt t.opt f w⟩)) with
          | some ts =>
            (match updLast st.srcs (fun s => { s with tags := some ts }) with
             | some l => (reset { st with srcs := l }, "ok")
             | none => (st, "bad-op"))
          | none => (st, "bad-op"))
       | none => (st, "bad-op"))
    | _, _ => (st, "bad-op")
  | ["parse", fmt, n] =>
    if (fmt == "yaml" || fmt == "json") && (parseNat? n).isSome then
      match parse st.srcs with
      | some e => ({ st with eff := some e, parsed := true }, s!"ok {e.length}")
      | none => ({ st with eff := none, parsed := true }, "error")
    else (st, "bad-op")
  | ["reenc"] =>
    match st.eff with
    | none => (st, "no-conf")
    | some e =>
      match ofJSON (toJSON e) with
      | some e' =>
        let same := e.map fmtSource == e'.map fmtSource &&
          e.map (fun s => s.target.map fmtTarget) == e'.map (fun s => s.target.map fmtTarget) &&
          e.map (fun s => s.tags.map (·.map fmtTag)) == e'.map (fun s => s.tags.map (·.map fmtTag))
        ({ st with eff := some e' }, s!"ok {e'.length} " ++ (if same then "same" else "diff"))
      | none => ({ st with eff := none }, "error")
  | ["eff", i] => (st, withSource st i fmtSource)
  | ["efftgt", i] =>
    (st, withSource st i (fun s => match s.target with | some t => fmtTarget t | none => "nil"))
  | ["efftag", i, j] =>
    (st, withSource st i (fun s =>
      match s.tags, parseNat? j with
      | some ts, some j => (match ts[j]? with | some t => fmtTag t | none => "no-tag")
      | none, some _ => "no-tag"
      | _, none => "bad-op"))
  | ["tagof", i, name] =>
    (st, withRuntime st i (fun s d rt => fmtTagof s d rt (unesc name)))
  | ["rtags", i] =>
    (st, withRuntime st i (fun _ _ rt =>
      if rt.isEmpty then "-" else
      " ".intercalate (rt.map (fun t =>
        "p=" ++ (match t.pattern with | some p => esc p | none => "nil") ++
        ",m=" ++ esc (t.strOf .method) ++ ",o=" ++ esc (t.strOf .order)))))
  | ["ignores", i] =>
    (st, withRuntime st i (fun _ _ rt =>
      "std=2 l:" ++ ",".intercalate ((nonHTTPPatterns rt).map esc)))
  | _ => (st, "bad-op")

end Sts.Drv
