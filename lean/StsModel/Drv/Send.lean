import StsModel.Model.Send
import StsModel.Drv.Common
namespace Sts.Drv

/-- one declared payload with its scripts -/
structure PaySpec where
  idx : Nat
  bin : SBin
  tx : List TxAns := []
  rc : List RcAns := []
  gone : List (String × Nat) := []   -- file `name` is gone from failure round k on

/-- component `send`: payloads declared and not yet sent, payloads forwarded and not yet
    tracked, the tracker. -/
structure SendSt where
  pays : List PaySpec := []
  next : Nat := 0
  fwd : List SBin := []
  tr : TrackSt := {}
  ntr : Nat := 0
  recs : List RecvRec := []

def parsePart? (i : Nat) (tok : String) : Option SPart :=
  match tok.splitOn ":" with
  | [n, h, fs, ss, b, l] =>
    match parseInt? fs, parseInt? ss, parseInt? b, parseInt? l with
    | some fs, some ss, some b, some l =>
      some { id := i, name := unesc n, hash := unesc h, beg := b, len := l, sendSize := ss, fileSize := fs }
    | _, _, _, _ => none
  | _ => none

/-- `name:hash:beg:len` (receiver-side query) -/
def parseQPart? (i : Nat) (tok : String) : Option SPart :=
  match tok.splitOn ":" with
  | [n, h, b, l] =>
    match parseInt? b, parseInt? l with
    | some b, some l =>
      some { id := i, name := unesc n, hash := unesc h, beg := b, len := l, sendSize := 0, fileSize := 0 }
    | _, _ => none
  | _ => none

def parseQParts? : Nat → List String → Option (List SPart)
  | _, [] => some []
  | i, t :: ts =>
    match parseQPart? i t, parseQParts? (i + 1) ts with
    | some p, some ps => some (p :: ps)
    | _, _ => none

def snd_fmtRec (rs : List Rng) : String :=
  if rs.isEmpty then "-" else " ".intercalate (rs.map (fun r => s!"{r.beg}:{r.fin}"))

def parseParts? : Nat → List String → Option (List SPart)
  | _, [] => some []
  | i, t :: ts =>
    match parsePart? i t, parseParts? (i + 1) ts with
    | some p, some ps => some (p :: ps)
    | _, _ => none

def parseTx? (tok : String) : Option TxAns :=
  match tok.splitOn ":" with
  | ["ok"] => some .ok
  | ["fail", n] => (parseInt? n).map .fail
  | _ => none

def parseRc? (tok : String) : Option RcAns :=
  match tok.splitOn ":" with
  | ["err"] => some .err
  | ["ok", n] => (parseInt? n).map .ok
  | _ => none

def parseGone? (tok : String) : Option (String × Nat) :=
  match tok.splitOn ":" with
  | [n, k, kind] =>
    if kind = "cache" ∨ kind = "changed" ∨ kind = "syncerr" then
      (parseNat? k).map (fun k => (unesc n, k))
    else none
  | _ => none

def fmtIds (ps : List SPart) : String :=
  if ps.isEmpty then "-" else ",".intercalate (ps.map (fun p => toString p.id))

def fmtTx : TxAns → String
  | .ok => "ok"
  | .fail n => s!"fail:{n}"

def fmtRc : RcAns → String
  | .err => "err"
  | .ok n => s!"ok:{n}"

def fmtAttempt (a : Attempt) : String :=
  fmtIds a.parts ++ ">" ++ fmtTx a.ans ++
    (if a.recov.isEmpty then "" else ">" ++ ",".intercalate (a.recov.map fmtRc))

def fmtList (xs : List String) (sep : String) : String :=
  if xs.isEmpty then "-" else sep.intercalate xs

def insertNat (x : SPart) : List SPart → List SPart
  | [] => [x]
  | y :: ys => if x.id ≤ y.id then x :: y :: ys else y :: insertNat x ys

def sortById (ps : List SPart) : List SPart := ps.foldr insertNat []

def insertStr (x : String) : List String → List String
  | [] => [x]
  | y :: ys => if x ≤ y then x :: y :: ys else y :: insertStr x ys

def sortStr (xs : List String) : List String := xs.foldr insertStr []

def goneAt (g : List (String × Nat)) (r : Nat) (p : SPart) : Bool :=
  g.any (fun e => e.1 = p.name ∧ e.2 ≤ r)

def fmtSend (p : PaySpec) (o : SendOut) : String :=
  s!"P{p.idx} tx=" ++ fmtList (o.attempts.map fmtAttempt) "|" ++
  " fwd=" ++ fmtList (o.forwarded.map (fun b => fmtIds b.parts ++ s!":{b.bytes}")) "|" ++
  " drop=" ++ fmtIds (sortById o.dropped)

def fmtProg (e : Prog) : String := s!"{esc e.name}:{esc e.hash}:{e.size}:{e.sent}"

def buildBin (cap : Int) (cs : List SPart) : SBin :=
  cs.foldl (fun b c => (b.add c).1) (SBin.new cap)

def snd_fmtBin (k : Nat) (b : SBin) : String :=
  s!"P{k} {b.bytes} " ++ fmtList (b.parts.map (fun p => s!"{p.id}:{esc p.name}:{p.beg}:{p.len}")) " "

def snd_updLast (f : PaySpec → PaySpec) : List PaySpec → Option (List PaySpec)
  | [] => none
  | [p] => some [f p]
  | p :: ps => (snd_updLast f ps).map (p :: ·)

def trackStep (acc : TrackSt × Nat × List String) (b : SBin) : TrackSt × Nat × List String :=
  let st := acc.1
  let st' := trackPayload st b.parts
  let newLogged := st'.logged.drop st.logged.length
  let newHanded := st'.handed.drop st.handed.length
  let line := s!"T{acc.2.1} sent=" ++ fmtList (newLogged.map fmtProg) "," ++
    " valid=" ++ fmtList (sortStr (newHanded.map (fun e => s!"{esc e.name}:{esc e.hash}"))) ","
  (st', acc.2.1 + 1, acc.2.2 ++ [line])

def sendStep (s : SendSt) (ws : List String) : SendSt × String :=
  match ws with
  | "payload" :: cap :: rest =>
    match parseInt? cap, parseParts? 0 rest with
    | some cap, some cs =>
      let b := buildBin cap cs
      ({ s with pays := s.pays ++ [{ idx := s.next, bin := b }], next := s.next + 1 }, snd_fmtBin s.next b)
    | _, _ => (s, "bad-op")
  | "tx" :: rest =>
    match rest.mapM parseTx? with
    | some l =>
      (match snd_updLast (fun p => { p with tx := l }) s.pays with
       | some ps => ({ s with pays := ps }, "ok")
       | none => (s, "bad-op"))
    | none => (s, "bad-op")
  | "rc" :: rest =>
    match rest.mapM parseRc? with
    | some l =>
      (match snd_updLast (fun p => { p with rc := l }) s.pays with
       | some ps => ({ s with pays := ps }, "ok")
       | none => (s, "bad-op"))
    | none => (s, "bad-op")
  | "gone" :: rest =>
    match rest.mapM parseGone? with
    | some l =>
      (match snd_updLast (fun p => { p with gone := l }) s.pays with
       | some ps => ({ s with pays := ps }, "ok")
       | none => (s, "bad-op"))
    | none => (s, "bad-op")
  | ["send", n] =>
    match parseNat? n with
    | some n =>
      if n < 1 ∨ n > 8 then (s, "bad-op") else
      let outs := s.pays.map (fun p => (p, sendLoop (goneAt p.gone) p.bin 0 p.tx p.rc))
      let fw := outs.flatMap (fun po => po.2.forwarded)
      ({ s with pays := [], fwd := s.fwd ++ fw }, fmtList (outs.map (fun po => fmtSend po.1 po.2)) " ; ")
    | none => (s, "bad-op")
  | ["rrecv", n, h, b, e] =>
    match parseInt? b, parseInt? e with
    | some b, some e =>
      if b < 0 ∨ e < b ∨ e > 1000 then (s, "bad-op") else
      let recs := recvRecord s.recs (unesc n) (unesc h) b e
      let cur := match recs.find? (fun r => r.name = unesc n) with
        | some r => snd_fmtRec r.parts
        | none => "-"
      ({ s with recs := recs }, "rec " ++ cur)
    | _, _ => (s, "bad-op")
  | "rcount" :: rest =>
    match parseQParts? 0 rest with
    | some ps => (s, toString (receivedCount (recvTest s.recs) ps))
    | none => (s, "bad-op")
  | ["track"] =>
    let r := s.fwd.foldl trackStep (s.tr, s.ntr, [])
    ({ s with fwd := [], tr := r.1, ntr := r.2.1 }, fmtList r.2.2 " ; ")
  | _ => (s, "bad-op")

end Sts.Drv
