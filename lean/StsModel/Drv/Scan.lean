import StsModel.Model.Scan
import StsModel.Drv.Common
/-
  Line-protocol driver of component `scan` (model side).  Ops (tokens %XX-escaped):

    conf <hidden 0|1> <follow 0|1> <minage> <sweep 0|1> I <k> <pat>*k X <k> <pat>*k
         T <k> (<method> <pat|~> <delete 0|1> <delay>)*k
    tree <k> <node>*k        node ::= f <name> <size> <mtime> | d <name> <k> <node>*k
                                    | lf <name> <lmtime> <r|a> <size> <mtime>
                                    | ld <name> <lmtime> <r|a> <k> <node>*k
                                    | lu <name> <lmtime> <r|a> | lx <name> <lmtime> <r|a>
    cache <k> (<relname> <size> <mtime> <h|-> <d|->)*k
    root <name>   (only as the first op: name of the outgoing directory itself)
    store | scan | done <relname> | ignore <relname> | include <relname> <size> <mtime>
    sync <relname> | candelete <relname>

  pat ::= <p|s|i|x|g>:<literal>.  Times are integers relative to the case's time origin;
  the scan's start time is 0.  An op that would put an age within `margin` of a threshold
  is answered `bad-op` (the real clock cannot decide it reproducibly).
-/
namespace Sts.Drv

structure ScanSt where
  sc : StoreConf := ⟨false, [], addStandardIgnore [], 0, false⟩
  tags : List Tag := [⟨"", false, 0⟩]
  tagPats : List (Option Pat) := [none]
  sweepOn : Bool := false
  scannedOnce : Bool := false
  touched : Bool := false
  tree : List Node := []
  cache : List CEntry := []

def margin : Int := 600000000000
def maxTime : Int := 1000000000000000
def maxSize : Int := 65536

def strictInt? (s : String) : Option Int :=
  let cs := s.toList
  let ds := match cs with | '-' :: r => r | r => r
  if ds.isEmpty || ds.length > 18 || !(ds.all Char.isDigit) then none else s.toInt?

def time? (s : String) : Option Int :=
  match strictInt? s with
  | some t => if t ≤ maxTime && -maxTime ≤ t then some t else none
  | none => none

def size? (s : String) : Option Int :=
  match strictInt? s with
  | some t => if 0 ≤ t && t ≤ maxSize then some t else none
  | none => none

def count? (s : String) : Option Nat :=
  match strictInt? s with
  | some t => if 0 ≤ t && t ≤ 1000 then some t.toNat else none
  | none => none

def bool01? (s : String) : Option Bool :=
  if s == "1" then some true else if s == "0" then some false else none

def validSeg (s : String) : Bool :=
  let cs := s.toList
  !cs.isEmpty && cs.length ≤ 64 && s != "." && s != ".." &&
    cs.all (fun c => 32 ≤ c.toNat && c.toNat ≤ 126 && c != '/')

def segName? (tok : String) : Option String :=
  let s := unesc tok
  if validSeg s then some s else none

def relName? (tok : String) : Option (List String) :=
  let segs := (unesc tok).splitOn "/"
  if !segs.isEmpty && segs.all validSeg then some segs else none

def pat? (tok : String) : Option Pat :=
  match tok.toList with
  | k :: ':' :: rest =>
    let lit := unesc (String.ofList rest)
    if !(lit.toList.all (fun c => 32 ≤ c.toNat && c.toNat ≤ 126)) then none else
    match k with
    | 'p' => some ⟨.pre, lit⟩
    | 's' => some ⟨.suf, lit⟩
    | 'i' => some ⟨.inf, lit⟩
    | 'x' => some ⟨.exact, lit⟩
    | 'g' => some ⟨.seg, lit⟩
    | _ => none
  | _ => none

def fmtPat (p : Pat) : String := p.kind.letter ++ ":" ++ esc p.lit

def joinOr (xs : List String) : String := if xs.isEmpty then "-" else ",".intercalate xs

def sortStrs (xs : List String) : List String := xs.mergeSort (fun a b => !(decide (b < a)))

/-- parse `k` items with `item` from the token list -/
def parseMany {α : Type} (item : List String → Option (α × List String)) :
    Nat → List String → Option (List α × List String)
  | 0, ts => some ([], ts)
  | k + 1, ts =>
    match item ts with
    | none => none
    | some (a, ts') =>
      match parseMany item k ts' with
      | none => none
      | some (as, ts'') => some (a :: as, ts'')

def patItem : List String → Option (Pat × List String)
  | t :: ts => (pat? t).map (fun p => (p, ts))
  | [] => none

def tagItem : List String → Option (TagConf × List String)
  | m :: p :: d :: dl :: ts =>
    let pat : Option (Option Pat) := if p == "~" then some none else (pat? p).map some
    match pat, bool01? d, time? dl with
    | some pat, some d, some dl =>
      let meth := unesc m
      if meth.toList.all (fun c => c.isAlphanum) && 0 ≤ dl then some (⟨meth, pat, d, dl⟩, ts) else none
    | _, _, _ => none
  | _ => none

def counted {α : Type} (marker : String) (item : List String → Option (α × List String)) :
    List String → Option (List α × List String)
  | m :: k :: ts => if m != marker then none else
    match count? k with
    | some k => parseMany item k ts
    | none => none
  | _ => none

def linkKind? (s : String) : Option Bool :=
  if s == "r" then some true else if s == "a" then some false else none

def dupNames (ns : List String) : Bool :=
  match ns with
  | [] => false
  | n :: rest => rest.contains n || dupNames rest

/-- one node; `fuel` bounds the nesting depth -/
def nodeItem : Nat → List String → Option (Node × List String)
  | 0, _ => none
  | fuel + 1, ts =>
    match ts with
    | "f" :: n :: sz :: mt :: rest =>
      match segName? n, size? sz, time? mt with
      | some n, some sz, some mt => some (.file n sz mt, rest)
      | _, _, _ => none
    | "d" :: n :: k :: rest =>
      match segName? n, count? k with
      | some n, some k =>
        match parseMany (nodeItem fuel) k rest with
        | some (kids, rest') => if dupNames (kids.map Node.name) then none else some (.dir n kids, rest')
        | none => none
      | _, _ => none
    | "lf" :: n :: lm :: r :: sz :: mt :: rest =>
      match segName? n, time? lm, linkKind? r, size? sz, time? mt with
      | some n, some lm, some r, some sz, some mt => some (.linkFile n lm r sz mt, rest)
      | _, _, _, _, _ => none
    | "ld" :: n :: lm :: r :: k :: rest =>
      match segName? n, time? lm, linkKind? r, count? k with
      | some n, some lm, some r, some k =>
        match parseMany (nodeItem fuel) k rest with
        | some (kids, rest') => if dupNames (kids.map Node.name) then none else some (.linkDir n lm r kids, rest')
        | none => none
      | _, _, _, _ => none
    | "lu" :: n :: lm :: r :: rest =>
      match segName? n, time? lm, linkKind? r with
      | some n, some lm, some r => some (.linkLoop n lm r, rest)
      | _, _, _ => none
    | "lx" :: n :: lm :: r :: rest =>
      match segName? n, time? lm, linkKind? r with
      | some n, some lm, some r => some (.linkDead n lm r, rest)
      | _, _, _ => none
    | _ => none

def cacheItem : List String → Option (CEntry × List String)
  | n :: sz :: mt :: h :: d :: ts =>
    let hb : Option Bool := if h == "h" then some true else if h == "-" then some false else none
    let db : Option Bool := if d == "d" then some true else if d == "-" then some false else none
    match relName? n, size? sz, time? mt, hb, db with
    | some n, some sz, some mt, some h, some d => some (⟨n, sz, mt, h, d⟩, ts)
    | _, _, _, _, _ => none
  | _ => none

/-! ### margins: ages that the real clock could not decide reproducibly -/

def farFrom (x thr : Int) : Bool := decide (x - thr ≥ margin) || decide (thr - x ≥ margin)

mutual
def nodeTimes : Node → List Int
  | .file _ _ mt => [mt]
  | .dir _ ks => listTimes ks
  | .linkFile _ lm _ _ mt => [lm, mt]
  | .linkDir _ lm _ ks => lm :: listTimes ks
  | .linkLoop _ lm _ => [lm]
  | .linkDead _ lm _ => [lm]
def listTimes : List Node → List Int
  | [] => []
  | k :: ks => nodeTimes k ++ listTimes ks
end

/-- one cache key is a proper path prefix of another: the clean-up's outcome would depend on
    the iteration order of the cache (a Go map), which the model does not have -/
def prefixRelated (ks : List (List String)) : Bool :=
  ks.any (fun a => ks.any (fun b => a.length < b.length && a.isPrefixOf b))

def marginOK (s : ScanSt) : Bool :=
  !prefixRelated (s.cache.map (·.segs)) &&
  (listTimes s.tree).all (fun t => farFrom (0 - t) s.sc.minAge) &&
  s.cache.all (fun e => farFrom e.mtime 0 &&
    s.tags.all (fun t => t.delay == 0 || farFrom (0 - e.mtime) t.delay))

/-! ### rendering -/

def fmtFound (f : Found) : String := esc (relStr f.segs) ++ ";" ++ toString f.size ++ ";" ++ toString f.mtime

def fmtEntry (e : CEntry) : String :=
  esc (relStr e.segs) ++ ";" ++ toString e.size ++ ";" ++ toString e.mtime ++ ";" ++
    (if e.hashed then "h" else "-") ++ ";" ++ (if e.done then "d" else "-")

mutual
def nodeLeaves (pre : List String) : Node → List (List String)
  | .file n _ _ => [pre ++ [n]]
  | .dir n ks => listLeaves (pre ++ [n]) ks
  | .linkFile n _ _ _ _ => [pre ++ [n]]
  | .linkDir n _ _ ks => (pre ++ [n]) :: listLeaves (pre ++ [n]) ks
  | .linkLoop n _ _ => [pre ++ [n]]
  | .linkDead n _ _ => [pre ++ [n]]
def listLeaves (pre : List String) : List Node → List (List String)
  | [] => []
  | k :: ks => nodeLeaves pre k ++ listLeaves pre ks
end

def fmtConf (s : ScanSt) : String :=
  "ok h=" ++ (if s.sc.includeHidden then "1" else "0") ++ " f=" ++ (if s.sc.follow then "1" else "0") ++
  " m=" ++ toString s.sc.minAge ++ " I=" ++ joinOr (s.sc.incl.map fmtPat) ++
  " X=" ++ joinOr (s.sc.ignore.map fmtPat) ++
  " T=" ++ joinOr ((s.tags.zip s.tagPats).map (fun (t, p) =>
      (match p with | some p => fmtPat p | none => "-") ++ ";" ++ (if t.delete then "1" else "0") ++ ";" ++ toString t.delay))

def bconf (s : ScanSt) : BConf := ⟨s.tags, firstTag s.tagPats⟩

def syncStr : SyncRes → String
  | .missing => "missing" | .changed => "changed" | .same => "same" | .error => "error"

/-- component `scan` -/
def scanStep (s : ScanSt) (ws : List String) : ScanSt × String :=
  match ws with
  | "conf" :: h :: f :: m :: sw :: rest =>
    match bool01? h, bool01? f, time? m, bool01? sw with
    | some h, some f, some m, some sw =>
      match counted "I" patItem rest with
      | some (incl, rest) =>
        match counted "X" patItem rest with
        | some (ign, rest) =>
          match counted "T" tagItem rest with
          | some (tags, []) =>
            let r := configure h f m incl ign tags
            let s' := { s with sc := r.1, tags := r.2, tagPats := (setDefaultTags tags).map (·.pat),
                               sweepOn := sw, scannedOnce := false, touched := true }
            (s', fmtConf s')
          | _ => (s, "bad-op")
        | none => (s, "bad-op")
      | none => (s, "bad-op")
    | _, _, _, _ => (s, "bad-op")
  | "tree" :: k :: rest =>
    match count? k with
    | some k =>
      match parseMany (nodeItem 8) k rest with
      | some (kids, []) => if dupNames (kids.map Node.name) then (s, "bad-op") else ({ s with tree := kids, touched := true }, "ok")
      | _ => (s, "bad-op")
    | none => (s, "bad-op")
  | "cache" :: k :: rest =>
    match count? k with
    | some k =>
      match parseMany cacheItem k rest with
      | some (es, []) =>
        if dupNames (es.map (fun e => relStr e.segs)) then (s, "bad-op")
        else ({ s with cache := es, scannedOnce := false, touched := true }, "ok")
      | _ => (s, "bad-op")
    | none => (s, "bad-op")
  | ["root", n] =>
    match segName? n with
    | some _ => if s.touched then (s, "bad-op") else (s, "ok")
    | none => (s, "bad-op")
  | ["store"] =>
    if !marginOK s then (s, "bad-op") else
    (s, joinOr (sortStrs ((storeScan s.sc 0 (fun _ => true) s.tree).map fmtFound)))
  | ["scan"] =>
    if !marginOK s then (s, "bad-op") else
    let stuck := if s.sweepOn && s.scannedOnce then some 0 else none
    let r := brokerScan s.sc (bconf s) 0 stuck ⟨s.tree, s.cache⟩
    let gone := (listLeaves [] s.tree).filter (fun p => (match lookup r.1.tree p with | .node _ => false | _ => true))
    ({ s with tree := r.1.tree, cache := r.1.cache, scannedOnce := true },
      "ready=" ++ joinOr (sortStrs (r.2.map (fun p => esc (relStr p)))) ++
      " gone=" ++ joinOr (sortStrs (gone.map (fun p => esc (relStr p)))) ++
      " cache=" ++ joinOr (sortStrs (r.1.cache.map fmtEntry)))
  | ["done", n] =>
    match relName? n with
    | some k =>
      match cacheGet s.cache k with
      | some _ => ({ s with cache := cacheDone s.cache k }, "ok")
      | none => (s, "nocache")
    | none => (s, "bad-op")
  | ["ignore", n] =>
    match relName? n with
    | some k => (s, boolStr (shouldIgnore s.sc (relStr k) (k.getLast?.getD "") false))
    | none => (s, "bad-op")
  | ["include", n, sz, mt] =>
    match relName? n, size? sz, time? mt with
    | some k, some sz, some mt => (s, boolStr (includeScanned s.cache ⟨k, sz, mt⟩))
    | _, _, _ => (s, "bad-op")
  | ["sync", n] =>
    match relName? n with
    | some k =>
      match cacheGet s.cache k with
      | some e => (s, syncStr (syncRes s.sc.follow s.tree e))
      | none => (s, "nocache")
    | none => (s, "bad-op")
  | ["candelete", n] =>
    match relName? n with
    | some k =>
      match cacheGet s.cache k with
      | some e => if !marginOK s then (s, "bad-op") else (s, boolStr (canDelete (bconf s) 0 e))
      | none => (s, "nocache")
    | none => (s, "bad-op")
  | _ => (s, "bad-op")

end Sts.Drv
