import StsModel.Model.Prune
import StsModel.Drv.Common
namespace Sts.Drv
open Sts.Prune

/-- state of component `prune`: the sandbox tree (the top directory is the entry with path `[]`) and
    the model clock. -/
structure PruneSt where
  fs : Tree := [⟨[], true, 0⟩]
  now : Int := 0

def prStageRoot : Path := ["stage"]
def prTargetRoot : Path := ["final"]

/-- a path token: `.` is the sandbox top, otherwise `/`-separated non-empty segments other than `.`
    and `..`. -/
def prParsePath? (tok : String) : Option Path :=
  let s := unesc tok
  if s == "." then some [] else
  let segs := s.splitOn "/"
  if segs.all (fun x => x != "" && x != "." && x != "..") then some segs else none

def prShowPath (p : Path) : String := if p.isEmpty then "." else esc ("/".intercalate p)

def prShowEntry (now : Int) (e : Entry) : String :=
  prShowPath e.path ++ ":" ++ (if e.isDir then "d" else "f") ++ ":" ++ toString (now - e.mtime)

def prJoin (xs : List String) : String := if xs.isEmpty then "-" else " ".intercalate xs

def pruneStep (s : PruneSt) (ws : List String) : PruneSt × String :=
  match ws with
  | [k, p, a] =>
    if k == "mkdir" || k == "file" then
      match prParsePath? p, parseInt? a with
      | some path, some age =>
        match create s.fs path (k == "mkdir") (s.now - age) with
        | some fs' => ({ s with fs := fs' }, "ok")
        | none => (s, "err")
      | _, _ => (s, "bad-op")
    else if k == "chtime" then
      match prParsePath? p, parseInt? a with
      | some path, some age =>
        if exists? s.fs path then ({ s with fs := touch (s.now - age) path s.fs }, "ok") else (s, "err")
      | _, _ => (s, "bad-op")
    else (s, "bad-op")
  | ["advance", n] =>
    match parseNat? n with
    | some k => ({ s with now := s.now + k }, "ok")
    | none => (s, "bad-op")
  | ["prune", m] =>
    match parseInt? m with
    | some minAge =>
      let ok : Path → Bool := fun _ => true
      let l1 := pruneOrder prStageRoot s.now minAge s.fs
      let fs1 := pruneTree ok prStageRoot s.now minAge s.fs
      let l2 := pruneOrder prTargetRoot s.now minAge fs1
      let fs2 := pruneTree ok prTargetRoot s.now minAge fs1
      let log := removedLog ok s.now s.fs l1 ++ removedLog ok s.now fs1 l2
      ({ s with fs := fs2 }, "removed " ++ prJoin (log.map prShowPath))
    | none => (s, "bad-op")
  | ["ls"] => (s, "ls " ++ prJoin ((sortEntries s.fs).map (prShowEntry s.now)))
  | _ => (s, "bad-op")

end Sts.Drv
