import StsModel.Model.Auth
import StsModel.Drv.Common
namespace Sts.Drv

def symServe : String := "/B/p1/p2/p3/outer/recv/serve"

/-- "~" is the empty list, otherwise comma-joined escaped items -/
def parseList (s : String) : List String :=
  if s == "~" then [] else (s.splitOn ",").map unesc

def fmtTriple (p : PartD) : String := esc p.name ++ "|" ++ esc p.renamed ++ "|" ++ esc p.prev

def fmtCall : Call → String
  | .newGK s => "new:" ++ esc s ++ ":"
  | .prepare s ps => "prepare:" ++ esc s ++ ":" ++ ",".intercalate (ps.map (fun p => esc (fmtTriple p)))
  | .receive s p => "receive:" ++ esc s ++ ":" ++ esc (fmtTriple p)
  | .received s ps => "received:" ++ esc s ++ ":" ++ ",".intercalate (ps.map (fun p => esc (fmtTriple p)))
  | .status s n => "status:" ++ esc s ++ ":" ++ esc n
  | .scan s v => "scan:" ++ esc s ++ ":" ++ esc v

def fmtResp (r : Resp) : String :=
  toString r.status ++ " " ++ (if r.calls.isEmpty then "-" else " ".intercalate (r.calls.map fmtCall)) ++
    " b=" ++ esc r.body

/-- part token: name|renamed|prev|size|kind (size and kind concern only the bytes the harness
    sends; they are checked for shape) -/
def parsePart (t : String) : Option PartD :=
  match t.splitOn "|" with
  | [n, r, p, sz, k] =>
    if sz.toNat?.isSome && (k == "w" || k == "h" || k == "p" || k == "q") then some ⟨unesc n, unesc r, unesc p⟩ else none
  | _ => none

def parseMethod (m : String) : Option String :=
  if m ∈ ["GET", "PUT", "POST", "DELETE", "HEAD", "PATCH", "OPTIONS"] then some m else none

/-- the raw request path must stay inside the alphabet the model of net/url covers -/
def urlCharOk (c : Char) : Bool :=
  c.isAlphanum || c == '-' || c == '.' || c == '_' || c == '~' || c == '/' || c == '%'

def parseReq (ws : List String) : Option Req :=
  match ws with
  | m :: url :: sh :: sq :: kh :: kq :: sep :: ml :: gz :: v :: body :: parts =>
    match parseMethod m, parts.mapM parsePart with
    | some m, some ps =>
      let url := unesc url
      if !(url.toList.all urlCharOk) || !isRooted url then none else
      let ml? : Option MetaLen := if ml == "ok" then some .ok else if ml == "bad" then some .bad else none
      let gz? : Option Gzip := if gz == "off" then some .off else if gz == "on" then some .on
        else if gz == "broken" then some .broken else none
      let body? : Option Body :=
        if body == "none" then (if ps.isEmpty then some .none else none)
        else if body == "junk" then (if ps.isEmpty then some .junk else none)
        else if body == "parts" then some (.parts ps) else none
      match ml?, gz?, body? with
      | some ml, some gz, some b =>
        some { method := m, url := url, srcH := unesc sh, srcQ := unesc sq, keyH := unesc kh, keyQ := unesc kq,
               sep := unesc sep, metaLen := ml, gzip := gz, body := b, version := unesc v }
      | _, _, _ => none
    | _, _ => none
  | _ => none

def setGK (gks : List GK) (g : GK) : List GK :=
  g :: gks.filter (fun x => x.source != g.source)

def fmtRoutes (t : List Route) : String :=
  " ".intercalate (t.map (fun r => esc r.pattern ++ "=" ++ (if r.validated then "handle(handleValidate(" ++ r.handler.goName ++ "))"
    else "handle(" ++ r.handler.goName ++ ")")))

/-- component `auth`: state = receiver configuration, gatekeeper table, serve directory -/
def authStep (s : Srv) (ws : List String) : Srv × String :=
  match ws with
  | ["boot", pre] =>
    -- repaired main/server.go init: every stage found at start-up is stopped before its
    -- Recover goroutine is started, so none is ready when init returns; afterwards the
    -- harness waits for the recoveries to end
    let names := parseList pre
    let seen := (runFlag false initEvents).1
    let srt := sortStrings names
    ({ Srv.init with gks := names.map (fun n => ⟨n, true, false⟩) },
      String.trimAscii ("ok " ++ " ".intercalate (srt.map (fun n => esc n ++ "=" ++ (if seen then "1" else "0")))) |>.toString)
  | ["conf", srcs, keys] => ({ s with conf := ⟨parseList srcs, parseList keys⟩ }, "ok")
  | ["seed", src, rel, content] =>
    ({ s with serve := s.serve ++ [⟨unesc src, unesc rel, unesc content, false⟩] }, "ok")
  | ["gk", src, what] =>
    let src := unesc src
    match what with
    | "stub0" => ({ s with gks := setGK s.gks ⟨src, false, true⟩ }, "ok")
    | "stub1" => ({ s with gks := setGK s.gks ⟨src, true, true⟩ }, "ok")
    | "make" =>
      match lookupGK s.gks src with
      | some _ => (s, "ok")
      | none => ({ s with gks := ⟨src, true, false⟩ :: s.gks }, "ok")
    | "stop" =>
      match lookupGK s.gks src with
      | some g => ({ s with gks := setGK s.gks { g with ready := (runFlag g.ready [.stop]).1 } }, "ok")
      | none => (s, "none")
    | "recover" =>
      match lookupGK s.gks src with
      | some g =>
        if g.stub then (s, "ok")
        else ({ s with gks := setGK s.gks { g with ready := (runFlag g.ready [.recoverBegin, .recoverStep, .recoverEnd]).1 } }, "ok")
      | none => (s, "none")
    | "block" =>
      -- Recover runs up to a step that blocks (the harness holds it there); not offered for
      -- source names that can share their directory with another name
      if (src.splitOn "/").length > 1 || (src.splitOn "--").length > 1 then (s, "bad-op") else
      match lookupGK s.gks src with
      | some g =>
        if g.stub then (s, "bad-op")
        else ({ s with gks := setGK s.gks { g with ready := (runFlag g.ready [.recoverBegin, .recoverStep]).1 } }, "ok")
      | none => (s, "none")
    | "unblock" =>
      match lookupGK s.gks src with
      | some g =>
        if g.stub then (s, "bad-op")
        else ({ s with gks := setGK s.gks { g with ready := (runFlag g.ready [.recoverStep, .recoverEnd]).1 } }, "ok")
      | none => (s, "none")
    | _ => (s, "bad-op")
  | "req" :: rest =>
    match parseReq rest with
    | some r =>
      let (s', resp) := serve symServe s r
      (s', fmtResp resp)
    | none => (s, "bad-op")
  | ["valid", src, key] => (s, boolStr (standardValid s.conf (unesc src) (unesc key)))
  | ["routes"] => (s, fmtRoutes routes)
  | _ => (s, "bad-op")

end Sts.Drv
