import StsModel.Model.Announce
import StsModel.Drv.Common
namespace Sts.Drv
open Sts.Announce

def annBody (b : Body) : String := ".".intercalate (b.map toString)
def annH (b : Body) : String := "b" ++ annBody b
def annParse? (s : String) : Option Body :=
  if s == "-" then some [] else (s.splitOn ".").mapM (·.toNat?)

/-- component `announce`: `hashrace <sizeAtScan> <contentAtHash>` → announced size and hash;
    `stream <size> <contentAtSend>` → the bytes transmitted for [0,size);
    `validates <sizeAtScan> <contentAtHash> <contentAtSend>` → does the receiver validate -/
def announceStep (_ : Unit) (ws : List String) : Unit × String :=
  match ws with
  | ["hashrace", sz, c] =>
    match parseNat? sz, annParse? c with
    | some sz, some c => let a := announce annH sz c; ((), s!"{a.1} {a.2}")
    | _, _ => ((), "bad-op")
  | ["stream", sz, c] =>
    match parseNat? sz, annParse? c with
    | some sz, some c => let b := streamed sz c; ((), if b.isEmpty then "-" else annBody b)
    | _, _ => ((), "bad-op")
  | ["validates", sz, ch, cs] =>
    match parseNat? sz, annParse? ch, annParse? cs with
    | some sz, some ch, some cs => ((), boolStr (validates annH (announce annH sz ch) (streamed sz cs)))
    | _, _, _ => ((), "bad-op")
  | _ => ((), "bad-op")

end Sts.Drv
