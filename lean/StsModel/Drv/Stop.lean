import StsModel.Model.Pipeline
import StsModel.Drv.Common
/-
  Driver of component `stop` (property C16): reads the same case description as
  harness/stop.go and predicts, by running the Pipeline model, whether `Start` returns after
  the stop request and which files must be done when a graceful stop returns.

  The model is anonymous in the files; the driver maps counts back to names with the queue's
  ordering rule for the only files a run may leave behind without a fault: the last file of
  each group when `last-delay` exceeds its age (`heldNames`, outside the proved model, checked
  against the real queue by the harness).
-/
namespace Sts.Drv
open Sts.Pipeline

structure StopFile where
  name : String
  size : Nat
  age : Nat
  deriving Repr

structure StopCase where
  threads : Nat := 2
  payload : Nat := 64
  chunk : Nat := 0
  order : String := "fifo"
  lastDelay : Nat := 0
  delete : Nat := 0
  attempts : Nat := 3
  scanDelay : Nat := 200
  files : List StopFile := []
  /-- fault plan: (queue, kind) -/
  faults : List (String × String) := []
  touch : Nat := 0
  /-- none: the receiver stays up; some 0: down for good; some n: down for n ms -/
  down : Option Nat := none

/-- decimal digits only, at most 9 of them -/
def digits? (s : String) : Option Nat :=
  if s.length == 0 || s.length > 9 then none
  else if s.toList.all Char.isDigit then s.toNat? else none

def splitKV (w : String) : String × String :=
  match w.toList.findIdx? (· == '=') with
  | some i => if i > 0 then (String.ofList (w.toList.take i), String.ofList (w.toList.drop (i + 1))) else (w, "")
  | none => (w, "")

def kvSet (m : List (String × String)) (k v : String) : List (String × String) :=
  (k, v) :: m.filter (fun p => p.1 != k)

def getI (m : List (String × String)) (k : String) (cur lo hi : Nat) : Option Nat :=
  match m.lookup k with
  | none => some cur
  | some v => match digits? v with
    | some n => if lo ≤ n ∧ n ≤ hi then some n else none
    | none => none

def knownKeys : List String := ["threads", "payload", "chunk", "lastdelay", "delete", "attempts", "scandelay", "order", "backoff"]

def stopConf (c : StopCase) (ws : List String) : Option StopCase := do
  let m := ws.foldl (fun m w => let (k, v) := splitKV w; kvSet m k v) []
  if m.any (fun p => !knownKeys.contains p.1) then none
  let threads ← getI m "threads" c.threads 1 8
  let payload ← getI m "payload" c.payload 10 1048576
  let chunk ← getI m "chunk" c.chunk 0 1048576
  let lastDelay ← getI m "lastdelay" c.lastDelay 0 1073741824
  let delete ← getI m "delete" c.delete 0 1
  let attempts ← getI m "attempts" c.attempts 1 100
  let scanDelay ← getI m "scandelay" c.scanDelay 1 100000
  -- error-backoff in seconds (how long a failed request waits before its retry): timing only, no effect on the prediction
  let _ ← getI m "backoff" 0 0 5
  let order ← match m.lookup "order" with
    | none => some c.order
    | some v => if v == "fifo" || v == "lifo" || v == "alpha" || v == "none" then some v else none
  pure { c with threads, payload, chunk, lastDelay, delete, attempts, scanDelay, order }

def groupOf (name : String) : String :=
  match name.toList.findIdx? (· == '.') with
  | some i => if i > 0 then String.ofList (name.toList.take i) else ""
  | none => ""

/-- `a` comes before `b` in the queue order of a group (queue/queue.go `addFile`) -/
def qBefore (order : String) (a b : StopFile) : Bool :=
  if order == "alpha" then a.name < b.name
  else if order == "lifo" then (if a.age != b.age then a.age < b.age else a.name < b.name)
  else (if a.age != b.age then a.age > b.age else a.name < b.name)

/-- the last file of a group in queue order -/
def lastOf (order : String) : List StopFile → Option StopFile
  | [] => none
  | f :: fs => some (fs.foldl (fun l g => if qBefore order l g then g else l) f)

/-- files `queue.Tagged.Pop` withholds: last of its group and younger than `last-delay` -/
def heldNames (c : StopCase) : List String :=
  if c.lastDelay == 0 then [] else
  let fs := c.files.filter (·.size > 0)
  let groups := (fs.map (fun f => groupOf f.name)).eraseDups
  groups.filterMap (fun g =>
    match lastOf c.order (fs.filter (fun f => groupOf f.name == g)) with
    | some l => if l.age < c.lastDelay then some l.name else none
    | none => none)

def hasNeg (c : StopCase) : Bool :=
  c.faults.any (fun f => f.1 == "poll" && (f.2 == "failed" || f.2 == "none"))

/-- fault actions of the model that the case's fault plan can cause -/
def allowedFaults (c : StopCase) : List Action :=
  (if c.faults.any (fun f => f.1 == "tx" || f.1 == "rc") || c.down.isSome
    then [.xmitFailNone, .xmitFailAll, .xmitFailSplit] else [])
  ++ (if c.faults.any (fun f => f.1 == "poll") || c.down.isSome then [.valNotFound] else [])
  ++ (if hasNeg c then [.valFail] else [])
  ++ (if c.faults.any (fun f => f.1 == "part") then [.recoverFail] else [])

def allFaultActions : List Action :=
  [.recoverFail, .recoverAbortErr, .xmitFailNone, .xmitFailAll, .xmitFailSplit, .xmitDropChanged, .xmitDropLast,
   .xmitOrphan, .xmitOrphanLast, .valFail, .valNotFound, .retryDrop]

def lcg (x : Nat) : Nat := (x * 1103515245 + 12345) % 2147483648

/-- run the model with a pseudo-random scheduler. Before the stop request (`stopIn` steps
    away) no stop action is taken; afterwards `scanAgain` (a lost race) is not taken. Among
    the fault actions only those the fault plan can cause are taken. `queuePopNil` is
    preferred while it is enabled with a non-empty queue: withheld files stay withheld. A scan
    reports every file that is present (the cases create all files before the start). -/
def runModel (c : StopCase) (graceful : Bool) : Nat → Nat → Nat → State → State
  | 0, _, _, s => s
  | fuel + 1, stopIn, seed, s =>
    if decide (returned s) then s else
    let stopReq := s.stop != .none
    if !stopReq && stopIn == 0 then
      runModel c graceful fuel 0 seed (apply s (if graceful then .stopGraceful else .stopNow))
    else
      let banned := allFaultActions.filter (fun a => !(allowedFaults c).contains a)
      let en := (enabled s).filter (fun a =>
        a != .stopGraceful && a != .stopNow && !banned.contains a && !(stopReq && a == .scanAgain))
      let en := if en.contains .queuePopNil && s.queue > 0 then en.filter (· != .queuePop) else en
      -- all source files exist before the sender starts: a scan sees all of them; `recover()` finds nothing
      let en := en.filter (· != .recoverFind)
      let en := if en.contains .scanFind then en.filter (fun a => a != .scanDone && a != .scanDoneNil) else en
      match en[seed % (max en.length 1)]? with
      | none => s
      | some a => runModel c graceful fuel (stopIn - 1) (lcg seed) (apply s a)

def modelState (c : StopCase) : State :=
  let n := (c.files.filter (·.size > 0)).length
  let budget := c.faults.length + (if c.down.isSome then 3 else 0)
  init { threads := c.threads, hold := (heldNames c).length } n budget

def stopSortStrings (l : List String) : List String := (l.toArray.qsort (· < ·)).toList

/-- the answer for one stop request: run the model from several stop positions -/
def predict (c : StopCase) (graceful : Bool) (seed : Nat) : String :=
  let kind := if graceful then "graceful" else "now"
  let finals := [0, 1, 3, 7, 12, 20, 33, 60, 120].map (fun k => runModel c graceful 200000 k (lcg (seed + k)) (modelState c))
  if finals.any (fun s => !decide (returned s)) then kind ++ " HANG"
  else if !graceful then "now returned"
  else if hasNeg c || c.touch > 0 then "graceful returned done=*"
  else
    let held := heldNames c
    let names := stopSortStrings ((c.files.filter (fun f => f.size > 0 && !held.contains f.name)).map (·.name))
    -- cross-check with the model's count: everything found and not withheld is done
    if finals.any (fun s => s.done != names.length || s.found != names.length + held.length) then "model-inconsistent"
    else if names.isEmpty then "graceful returned done=-"
    else "graceful returned done=" ++ ",".intercalate (names.map esc)

def hashStr (s : String) : Nat := s.toList.foldl (fun h ch => (h * 31 + ch.toNat) % 1000003) 7

def stopStep (c : StopCase) (ws : List String) : StopCase × String :=
  match ws with
  | "conf" :: rest =>
    match stopConf c rest with
    | some c' => (c', "ok")
    | none => (c, "bad-op")
  | ["file", name, size, age] =>
    match digits? size, digits? age with
    | some sz, some ag =>
      let n := unesc name
      if sz > 1048576 || n == "" || n.toList.contains '/' || c.files.any (·.name == n) then (c, "bad-op")
      else ({ c with files := c.files ++ [⟨n, sz, ag⟩] }, "ok")
    | _, _ => (c, "bad-op")
  | ["fault", q, k] =>
    let ok :=
      if q == "tx" then k == "err" || k == "lost" || k.startsWith "cut:" || k.startsWith "206:"
      else if q == "rc" || q == "part" then k == "err"
      else if q == "poll" then k == "err" || k == "failed" || k == "none"
      else false
    if ok then ({ c with faults := c.faults ++ [(q, k)] }, "ok") else (c, "bad-op")
  | ["touch", _, _] => ({ c with touch := c.touch + 1 }, "ok")
  | ["down", ms] =>
    match digits? ms with
    | some n => ({ c with down := some n }, "ok")
    | none => (c, "bad-op")
  | ["stopat", kind, spec] =>
    if (kind != "graceful" && kind != "now") || c.files.isEmpty || (kind == "graceful" && c.down == some 0) then (c, "bad-op")
    else if !spec.startsWith "@" && (digits? spec).isNone then (c, "bad-op")
    else (c, predict c (kind == "graceful") (hashStr spec))
  | ["sweep", kind, spec] =>
    if (kind != "graceful" && kind != "now") || c.files.isEmpty || (kind == "graceful" && c.down == some 0) then (c, "bad-op")
    else if spec != "all" && (match digits? spec with | some n => n < 1 | none => true) then (c, "bad-op")
    else (c, predict c (kind == "graceful") (hashStr spec))
  | _ => (c, "bad-op")

end Sts.Drv
