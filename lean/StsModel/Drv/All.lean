import StsModel.Drv.Ranges
import StsModel.Drv.Stage
import StsModel.Drv.LogFmt
namespace Sts.Drv

def main (args : List String) : IO UInt32 :=
  match args with
  | ["ranges"] => run rangesStep []
  | ["stage"] => run stageStep {}
  | ["logfmt"] => run logfmtStep {}
  | ["logfmt-orig"] => run logfmtOrigStep {}
  | _ => do
    IO.eprintln "usage: stsdrv <component>   (ranges)"
    return 2

end Sts.Drv
