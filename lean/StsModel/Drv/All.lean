import StsModel.Drv.Ranges
namespace Sts.Drv

def main (args : List String) : IO UInt32 :=
  match args with
  | ["ranges"] => run rangesStep []
  | _ => do
    IO.eprintln "usage: stsdrv <component>   (ranges)"
    return 2

end Sts.Drv
