import StsModel.Drv.Ranges
import StsModel.Drv.Stage
namespace Sts.Drv

def main (args : List String) : IO UInt32 :=
  match args with
  | ["ranges"] => run rangesStep []
  | ["stage"] => run stageStep {}
  | _ => do
    IO.eprintln "usage: stsdrv <component>   (ranges)"
    return 2

end Sts.Drv
