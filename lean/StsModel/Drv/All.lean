import StsModel.Drv.Ranges
import StsModel.Drv.Stage
import StsModel.Drv.LogFmt
import StsModel.Drv.ChunkBin
import StsModel.Drv.Scan
import StsModel.Drv.Conf
import StsModel.Drv.Send
import StsModel.Drv.Queue
import StsModel.Drv.Wire
import StsModel.Drv.Path
import StsModel.Drv.Auth
import StsModel.Drv.Announce
import StsModel.Drv.Release
import StsModel.Drv.Live
import StsModel.Drv.Stop
import StsModel.Drv.Prune
import StsModel.Drv.Move
namespace Sts.Drv

def main (args : List String) : IO UInt32 :=
  match args with
  | ["ranges"] => run rangesStep []
  | ["stage"] => run stageStep {}
  | ["logfmt"] => run logfmtStep {}
  | ["logfmt-orig"] => run logfmtOrigStep {}
  | ["chunkbin"] => run chunkbinStep {}
  | ["scan"] => run scanStep {}
  | ["conf"] => run confStep {}
  | ["send"] => run sendStep {}
  | ["queue"] => run queueStep ([], [])
  | ["queuep"] => run queueStep ([], [])
  | ["wire"] => run wireStep {}
  | ["path"] => run pathStep ()
  | ["auth"] => run authStep Srv.init
  | ["announce"] => run announceStep ()
  | ["live"] => run liveStep {}
  | ["stop"] => run stopStep {}
  | ["prune"] => run pruneStep {}
  | ["fmove"] => run moveStep {}
  | ["release"] => run Rel.relStep {}
  | ["recovery"] => run Rel.relStep {}
  | ["release-orig"] => run Rel.relStep { fx := Sts.Release.Fixes.original }
  | _ => do
    IO.eprintln "usage: stsdrv <component>   (ranges, stage, logfmt, chunkbin, scan, conf, send, queue, queuep)"
    return 2

end Sts.Drv
