import StsModel.Model.Queue
import StsModel.Drv.Common
/-
  Line-protocol driver of the `queue` component (Model/Queue.lean).

    tags <name> <prio> <order> <chunk> <lastdelay-seconds> ...      new queue with these tags (in this order)
    push <name> <size> <unix-seconds>                               plain sts.Hashed
    push <name> <size> <unix-seconds> rec <prev> <beg>:<end> ...    client.recoverFile (sts.Recovered)
    pop <now-unix-seconds>          -> <name> <offset> <length> <prev> <sendsize> | nil
    dump                            -> group order, per group head file, list, links; byFile keys

  The harness builds the real queue with grouper(name) = the part of the name before the
  first '/', tagger(group) = the part of the group before the first '.'; the same two
  functions are used here.
-/
namespace Sts.Drv
open Sts.Queue

def qUpTo (c : Char) (s : String) : String := String.ofList (s.toList.takeWhile (· ≠ c))

def queueConf (tags : List Tag) : Conf :=
  { tags := tags, tagger := qUpTo '.', grouper := qUpTo '/' }

def qParseTags : List String → Option (List Tag)
  | [] => some []
  | n :: p :: o :: c :: d :: rest =>
    match parseInt? p, parseInt? c, parseInt? d, qParseTags rest with
    | some p, some c, some d, some ts =>
      some ({ name := unesc n, priority := p, order := Order.ofString (unesc o), chunk := c, lastDelay := d } :: ts)
    | _, _, _, _ => none
  | _ => none

def qParseRng (s : String) : Option Rng :=
  match s.splitOn ":" with
  | [b, e] => match parseInt? b, parseInt? e with
    | some b, some e => some ⟨b, e⟩
    | _, _ => none
  | _ => none

def qInsSorted (x : String) : List String → List String
  | [] => [x]
  | y :: ys => if x < y then x :: y :: ys else y :: qInsSorted x ys

def qSortStrings (l : List String) : List String := l.foldr qInsSorted []

def qOptName (ns : Nodes) : Option Nat → String
  | none => "~"
  | some i => esc (nodeName ns i)

def qFmtNode (ns : Nodes) (i : Nat) : String :=
  esc (nodeName ns i) ++ "[" ++ qOptName ns (getPrev ns i) ++ "|" ++ qOptName ns (getNext ns i) ++ "|" ++
    (if isAllocated ns i then "a" else "p") ++ "]"

def qFmtGroup (g : GroupSt) : String :=
  esc g.name ++ ";p=" ++ toString g.conf.priority ++ ";head=" ++
    (match g.head with | none => "~" | some h => qFmtNode g.nodes h) ++ ";list=" ++
    (if g.list.isEmpty then "~" else ",".intercalate (g.list.map (qFmtNode g.nodes)))

def qFmtDump (s : State) : String :=
  let names := qSortStrings (s.flatMap (fun g => g.byFile.map (fun e => esc e.1)))
  " ".intercalate (["groups=" ++ toString s.length] ++ s.map qFmtGroup ++
    ["byfile=" ++ (if names.isEmpty then "~" else ",".intercalate names), "glinks=ok"])

def qFmtChunk (c : Chunk) : String :=
  esc c.name ++ " " ++ toString c.offset ++ " " ++ toString c.length ++ " " ++ esc c.prev ++ " " ++ toString c.send

/-- component `queue`: state = tags and queue state -/
def queueStep (st : List Tag × State) (ws : List String) : (List Tag × State) × String :=
  match ws with
  | "tags" :: rest =>
    match qParseTags rest with
    | some ts => ((ts, []), "ok")
    | none => (st, "bad-op")
  | ["push", n, sz, t] =>
    match parseInt? sz, parseInt? t with
    | some sz, some t =>
      ((st.1, push (queueConf st.1) st.2 { name := unesc n, size := sz, time := t, rcv := none }), "ok")
    | _, _ => (st, "bad-op")
  | "push" :: n :: sz :: t :: "rec" :: pv :: rs =>
    match parseInt? sz, parseInt? t, rs.mapM qParseRng with
    | some sz, some t, some left =>
      ((st.1, push (queueConf st.1) st.2
        { name := unesc n, size := sz, time := t, rcv := some { prev := unesc pv, left := left, part := 0, used := 0 } }), "ok")
    | _, _, _ => (st, "bad-op")
  | ["pop", now] =>
    match parseInt? now with
    | some now =>
      let (s', c) := pop st.2 now
      ((st.1, s'), match c with | some c => qFmtChunk c | none => "nil")
    | none => (st, "bad-op")
  | ["dump"] => (st, qFmtDump st.2)
  | _ => (st, "bad-op")

end Sts.Drv
