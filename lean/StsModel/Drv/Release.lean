import StsModel.Model.Release
import StsModel.Drv.Common
import StsModel.Drv.Ranges
namespace Sts.Drv.Rel
open Sts.Drv Sts.Release

/-- component `release`: configuration, scripted environment and the sender state. -/
structure RelDrv where
  fx : Fixes := Fixes.repaired
  tags : List Tag := []
  pollMax : Nat := 2
  attempts : Nat := 2
  st : St := {}
  started : Bool := false
  /-- scripted opener faults for the next `retry` (the newest first; one per name) -/
  faults : List (Name × Fault) := []

/-- the harness' tagger: the name up to the first dot. -/
def relTagOf (n : Name) : String := (n.splitOn ".").headD ""

/-- the harness' store ignores names that start with `ign`. -/
def relIgn (n : Name) : Bool := n.startsWith "ign"

/-- the unit of the integers the model compares: one tick = 100 ms, 36000 to the hour. The
    op grammar writes a time as `T` (hours relative to the case's base instant) or `T+K`
    (`K` ticks later, `0 ≤ K < maxTick`); durations (delete delays, the age of a restart) are
    whole hours. Everything is scaled to ticks here, at parse time: Model/Release.lean
    hard-codes no duration and is unit-agnostic (`Env.now`, `Tag.delay`, `restart k`). -/
def ticksPerHour : Int := 36000

/-- the last ten minutes of an hour carry no written time: the real clock of the run lies
    there (harness: base = start of the case - 50 min), so that every comparison with `now`
    is decided by the written numbers alone. -/
def maxTick : Nat := 30000

/-- `T` or `T+K` to ticks. -/
def parseTime? (s : String) : Option Int :=
  match s.splitOn "+" with
  | [h] => (parseInt? h).map (· * ticksPerHour)
  | [h, k] =>
    match parseInt? h, parseNat? k with
    | some h, some k => if k < maxTick then some (h * ticksPerHour + (k : Int)) else none
    | _, _ => none
  | _ => none

/-- ticks print as `T` when they are whole hours, as `T+K` (`0 < K < 36000`) otherwise. -/
def fmtTime (t : Int) : String :=
  let h := Int.fdiv t ticksPerHour
  let k := Int.fmod t ticksPerHour
  if k = 0 then s!"{h}" else s!"{h}+{k}"

/-- the operations run within the last ten minutes of the first hour after the base instant:
    the current instant lies strictly between `now - 6000` and `now` ticks. -/
def RelDrv.env (d : RelDrv) : Env :=
  { tags := d.tags, tagOf := relTagOf, ign := relIgn, now := ticksPerHour, pollMax := d.pollMax, attempts := d.attempts }

def tokHash (s : String) : String := unesc s

def fmtHash (h : String) : String := esc h

def fmtEntry (e : CEntry) : String :=
  s!"{esc e.name}/{e.size}/{fmtTime e.time}/{fmtHash e.hash}/{if e.done then 1 else 0}"

def fmtCache (c : Cache) : String :=
  if c.isEmpty then "-" else ",".intercalate (c.map fmtEntry)

def fmtStore (s : Store) : String :=
  if s.isEmpty then "-" else ",".intercalate (s.map (fun f => s!"{esc f.name}/{f.size}/{fmtTime f.time}/{fmtHash f.hash}"))

def fmtLeft (l : List Rng) : String :=
  if l.isEmpty then "-" else ",".intercalate (l.map (fun r => s!"{r.beg}:{r.fin}"))

def fmtNames (l : List Name) : String :=
  if l.isEmpty then "-" else ",".intercalate (l.map esc)

def fmtPush : Push → String
  | .placeholder n sz h => s!"P:{esc n}:{sz}:{fmtHash h}"
  | .allocated n => s!"A:{esc n}"
  | .resume n prev left => s!"R:{esc n}:{esc prev}:{fmtLeft left}"
  | .plain n => s!"W:{esc n}"

def fmtVerdict : Verdict → String
  | .none => "none"
  | .failed => "failed"
  | .passed => "passed"
  | .waiting => "waiting"
  | .other => "other"
  | .omit => "omit"

def fmtEff : Eff → String
  | .recErr => "rerr"
  | .cacheRemove n => s!"crm:{esc n}"
  | .cacheDone n c => s!"cdone:{esc n}:{if c then 1 else 0}"
  | .cacheAdd n => s!"cadd:{esc n}"
  | .storeRemove n e f => s!"del:{esc n}:{e.size}/{fmtTime e.time}:{match f with | some g => s!"{g.size}/{fmtTime g.time}" | none => "none"}"
  | .wasSent n => s!"wassent:{esc n}"
  | .logSent n h => s!"log:{esc n}:{fmtHash h}"
  | .poll ns => s!"poll:{fmtNames ns}"
  | .answer n v => s!"ans:{esc n}:{fmtVerdict v}"
  | .pollErr => "perr"
  | .persist => "persist"
  | .push p => fmtPush p
  | .retry n => s!"retry:{esc n}"

def isPush : Eff → Bool
  | .push _ => true
  | _ => false

/-- the trace without the queue pushes (the harness sees those as recover()'s result). -/
def fmtEffs (l : List Eff) : String :=
  let l := l.filter (fun e => !isPush e)
  if l.isEmpty then "-" else " ".intercalate (l.map fmtEff)

def fmtPushes (l : List Eff) : String :=
  let l := l.filter isPush
  if l.isEmpty then "-" else " ".intercalate (l.map fmtEff)

def fmtState (st : St) : String :=
  s!"mem={fmtCache st.cache} | disk={fmtCache st.disk} | store={fmtStore st.store}"

def sinsert (f : SFile) : Store → Store
  | [] => [f]
  | x :: xs => if f.name < x.name then f :: x :: xs else x :: sinsert f xs

def parseVerdict? : String → Option Verdict
  | "none" => some .none
  | "failed" => some .failed
  | "passed" => some .passed
  | "waiting" => some .waiting
  | "other" => some .other
  | "omit" => some .omit
  | _ => none

def parseRng? (s : String) : Option Rng :=
  match s.splitOn ":" with
  | [b, e] => match parseInt? b, parseInt? e with
    | some b, some e => some ⟨b, e⟩
    | _, _ => none
  | _ => none

def parseParts? (s : String) : Option (List Rng) :=
  if s == "-" then some [] else (s.splitOn ",").mapM parseRng?

def parseBool? : String → Option Bool
  | "0" => some false
  | "1" => some true
  | _ => none

def validName (n : String) : Bool :=
  n ≠ "" && n.all (fun c => c.isAlphanum || c == '.') && !n.startsWith "."

def parsePFile? (c : Cache) (s : String) : Option PFile :=
  match s.splitOn ":" with
  | [n, k] => match parseNat? k with
    | some k => if validName n then
        some ⟨n, (match cget c n with | some e => e.hash | none => ""), k⟩ else none
    | none => none
  | _ => none

/-- `NAME:PREV` of the `retry` op (`-` = no predecessor). -/
def parseRFile? (s : String) : Option RFile :=
  match s.splitOn ":" with
  | [n, p] => if validName n && (p == "-" || validName p) then some ⟨n, unesc p⟩ else none
  | _ => none

def parseFault? : String → String → Option Fault
  | "open", "gone" => some .gone
  | "open", "eio" => some .openErr
  | "read", "eio" => some .readErr
  | _, _ => none

def parseTPart? (s : String) : Option TPart :=
  match s.splitOn ":" with
  | [n, h, sz, len] => match parseInt? sz, parseInt? len with
    | some sz, some len => if validName n then some ⟨n, tokHash h, sz, len⟩ else none
    | _, _ => none
  | _ => none

def parsePayloads? (s : String) : Option (List (List TPart)) :=
  (s.splitOn ";").mapM (fun p => (p.splitOn ",").mapM parseTPart?)

def nodupNames : List Name → Bool
  | [] => true
  | n :: ns => !ns.contains n && nodupNames ns

/-- the answer a name's script ends with (it repeats for ever). -/
def lastVerdict (as : List (Name × List Verdict)) (n : Name) : Verdict :=
  match as.find? (fun a => a.1 = n) with
  | some (_, vs) => vs.getLastD .none
  | none => .none

/-- successful polls in a trace (a `poll` directly followed by `perr` failed). -/
def succPolls : List Eff → List (List Name)
  | [] => []
  | .poll _ :: .pollErr :: rest => succPolls rest
  | .poll ns :: rest => ns :: succPolls rest
  | _ :: rest => succPolls rest

def countPolls (ps : List (List Name)) (n : Name) : Nat := (ps.filter (·.contains n)).length

def relSortStrings (l : List String) : List String := l.foldl (fun acc x => ins x acc) []
where ins (x : String) : List String → List String
  | [] => [x]
  | y :: ys => if x ≤ y then x :: y :: ys else y :: ins x ys

def namesOf (l : List Eff) (f : Eff → Option Name) : List Name := relSortStrings (l.filterMap f)

def relStep (d : RelDrv) (ws : List String) : RelDrv × String :=
  let bad := (d, "bad-op")
  match ws with
  | ["tag", t, del, delay] =>
    match parseBool? del, parseInt? delay with
    | some del, some delay => ({ d with tags := d.tags ++ [⟨unesc t, del, delay * ticksPerHour⟩] }, "ok")
    | _, _ => bad
  | ["conf", "pollmax", k] =>
    match parseNat? k with
    | some k => if k = 0 then bad else ({ d with pollMax := k }, "ok")
    | none => bad
  | ["conf", "attempts", k] =>
    match parseNat? k with
    | some k => if k = 0 then bad else ({ d with attempts := k }, "ok")
    | none => bad
  | ["cache", n, size, time, hash, done] =>
    match parseInt? size, parseTime? time, parseBool? done with
    | some size, some time, some done =>
      if d.started || !validName n || (cget d.st.cache n).isSome then bad
      else
        let c := cinsert ⟨n, size, time, tokHash hash, done⟩ d.st.cache
        ({ d with st := { d.st with cache := c, disk := c } }, "ok")
    | _, _, _ => bad
  | ["file", n, size, time, content] =>
    match parseNat? size, parseTime? time with
    | some size, some time =>
      if !validName n || !validName content then bad
      else
        let f : SFile := ⟨n, size, time, if size = 0 then "m-0" else s!"m-{content}-{size}"⟩
        ({ d with st := { d.st with store := sinsert f (sremove d.st.store n) } }, "ok")
    | _, _ => bad
  | ["rmfile", n] =>
    if !validName n then bad else ({ d with st := { d.st with store := sremove d.st.store n } }, "ok")
  | ["partial", n, size, hash, prev, parts] =>
    match parseInt? size, parseParts? parts with
    | some size, some parts =>
      if !validName n then bad
      else ({ d with st := { d.st with partials := d.st.partials ++ [⟨n, size, tokHash hash, unesc prev, parts⟩] } }, "ok")
    | _, _ => bad
  | ["answer", n, vs] =>
    match (vs.splitOn ",").mapM parseVerdict? with
    | some vs =>
      if !validName n || vs.isEmpty then bad
      else ({ d with st := { d.st with answers := (n, vs) :: d.st.answers.filter (fun a => a.1 ≠ n) } }, "ok")
    | none => bad
  | ["pollerr", k] =>
    match parseNat? k with
    | some k => ({ d with st := { d.st with pollErrs := k } }, "ok")
    | none => bad
  | ["recerr", k] =>
    match parseNat? k with
    | some k => ({ d with st := { d.st with recErrs := k } }, "ok")
    | none => bad
  | ["rcvhas", n, _] => if !validName n then bad else (d, "ok")
  | ["logged", n, hash] =>
    if !validName n then bad
    else ({ d with st := { d.st with logged := d.st.logged ++ [(n, tokHash hash)] } }, "ok")
  | ["restart", k] =>
    match parseNat? k with
    | some k => ({ d with st := restart ((k : Int) * ticksPerHour) d.st, started := true }, "ok")
    | none => bad
  | ["recover"] =>
    let r := recover d.fx d.env d.st
    ({ d with st := r.st, started := true },
      s!"{fmtEffs r.effs} | push={fmtPushes r.effs} | err={if r.err then 1 else 0} | {fmtState r.st}")
  | ["scan"] =>
    let r := scan d.fx d.env d.st
    let ready := if r.ready.isEmpty then "-" else ",".intercalate (r.ready.map (fun x => s!"{esc x.1}/{fmtHash x.2}"))
    ({ d with st := r.st, started := true }, s!"{fmtEffs r.effs} | ready={ready} | {fmtState r.st}")
  | ["finish", n, v] =>
    match parseVerdict? v with
    | some v =>
      if !validName n || v = .omit then bad
      else
        let r := finish d.fx d.env d.st n v
        ({ d with st := r.1, started := true }, s!"{fmtEffs r.2} | {fmtState r.1}")
    | none => bad
  | ["validate", files] =>
    match (files.splitOn ",").mapM (parsePFile? d.st.cache) with
    | some fs =>
      let names := fs.map (·.name)
      -- the real loop never ends when a file's script ends with an answer that neither
      -- finishes nor counts
      let ends := names.all (fun n =>
        match lastVerdict d.st.answers n with
        | .other => false
        | .omit => false
        | _ => true)
      if !nodupNames names || !ends || fs.any (fun f => f.polled ≥ d.attempts) then bad
      else
        let fuel := fs.length * (d.attempts + 1) + (d.st.answers.map (fun a => a.2.length)).sum + 2
        let r := validateRun d.fx d.env (fuel * (fs.length + 1)) (d.st, fs)
        let ps := succPolls r.2
        let polls := ",".intercalate ((relSortStrings names).map (fun n => s!"{esc n}:{countPolls ps n}"))
        let dn := namesOf r.2 (fun e => match e with | .cacheDone n _ => some n | _ => none)
        let dl := namesOf r.2 (fun e => match e with | .storeRemove n _ _ => some n | _ => none)
        let rt := namesOf r.2 (fun e => match e with | .retry n => some n | _ => none)
        let perrs := (r.2.filter (· == Eff.pollErr)).length
        ({ d with st := r.1.1, started := true },
          s!"polls={polls} perrs={perrs} done={fmtNames dn} del={fmtNames dl} retry={fmtNames rt} left={fmtNames (r.1.2.map (·.name))} | {fmtState r.1.1}")
    | none => bad
  | ["fault", site, n, kind] =>
    match parseFault? site kind with
    | some k =>
      if !validName n then bad
      else ({ d with faults := (n, k) :: d.faults.filter (fun a => a.1 ≠ n) }, "ok")
    | none => bad
  | ["retry", files] =>
    match (files.splitOn ",").mapM parseRFile? with
    | some fs =>
      let r := retryRun d.fx d.st fs d.faults
      ({ d with st := r.1, started := true, faults := [] },
        s!"{fmtEffs r.2} | push={fmtPushes r.2} | {fmtState r.1}")
    | none => bad
  | ["track", payloads] =>
    match parsePayloads? payloads with
    | some pls =>
      let r := trackRun [] pls
      let handed := relSortStrings (r.2.1.map (fun t => s!"{esc t.name}/{fmtHash t.hash}/{t.size}/{t.sent}"))
      (d, s!"handed={if handed.isEmpty then "-" else ",".intercalate handed} logged={fmtNames r.2.2} stuck={if trackStuck d.fx r.1 then 1 else 0}")
    | none => bad
  | _ => bad

end Sts.Drv.Rel
