import StsModel.Model.Move
import StsModel.Drv.Common
namespace Sts.Drv
open Sts.Move

/-- strict decimal token (no sign, no separators), bounded -/
def mvNat? (s : String) (max : Nat) : Option Nat :=
  if s.isEmpty || !s.all Char.isDigit || s.length > 9 then none
  else match s.toNat? with
    | some n => if n ≤ max then some n else none
    | none => none

/-- the content `LEN SEED` stands for (the harness writes the same bytes) -/
def mvGen (len seed : Nat) : Bytes :=
  (List.range len).map (fun i => UInt8.ofNat ((seed * 131 + i * 31 + i / 256 * 7 + 17) % 256))

/-- FNV-1a, 32 bit -/
def mvFnv (b : Bytes) : Nat :=
  b.foldl (fun h x => ((h ^^^ x.toNat) * 16777619) % 4294967296) 2166136261

def mvHex8 (n : Nat) : String :=
  String.ofList ((List.range 8).reverse.map (fun i => hexDigit ((n / 16 ^ i) % 16)))

def mvShow : Option Bytes → String
  | none => "-"
  | some b => toString b.length ++ ":" ++ mvHex8 (mvFnv b)

def mvListing (d : Disk) : String :=
  "src=" ++ mvShow d.src ++ " dst=" ++ mvShow d.dst ++ " lck=" ++ (if d.lckDir then "dir" else mvShow d.lck)

def mvRes : Res → String
  | .ok => "ok"
  | .noent => "noent"
  | .isdir => "isdir"

def mvCross? (s : String) : Option Bool :=
  if s == "0" then some false else if s == "1" then some true else none

def mvOrder? (s : String) : Option Order :=
  if s == "rmfirst" then some .removeFirst else if s == "rnfirst" then some .renameFirst else none

def mvMaxLen : Nat := 1000000

def mvContent? (ws : List String) : Option (Option Bytes) :=
  match ws with
  | ["-"] => some none
  | [l, s] =>
    match mvNat? l mvMaxLen, mvNat? s 999999999 with
    | some len, some seed => some (some (mvGen len seed))
    | _, _ => none
  | _ => none

/-- component `fmove`: state = the three names -/
def moveStep (d : Disk) (ws : List String) : Disk × String :=
  match ws with
  | "src" :: rest =>
    match mvContent? rest with
    | some c => ({ d with src := c }, "ok")
    | none => (d, "bad-op")
  | "dst" :: rest =>
    match mvContent? rest with
    | some c => ({ d with dst := c }, "ok")
    | none => (d, "bad-op")
  | ["lck", "dir"] => ({ d with lck := none, lckDir := true }, "ok")
  | "lck" :: rest =>
    match mvContent? rest with
    | some c => ({ d with lck := c, lckDir := false }, "ok")
    | none => (d, "bad-op")
  | ["move", c] =>
    match mvCross? c with
    | some cross =>
      let d0 := { d with cross := cross }
      let d1 := moveClosed d0
      (d1, mvRes (moveRes d0) ++ " " ++ mvListing d1)
    | none => (d, "bad-op")
  | ["cutmove", c, point, o] =>
    -- `o`: the order of Remove and the second Rename in the code under test, observed by the harness
    match mvCross? c, mvOrder? o with
    | some cross, some ord =>
      if point == "created" || point == "written" || point == "lck" || point == "renamed" || point == "done" then
        let d0 := { d with cross := cross }
        match hookPos ord d0 point with
        | some k =>
          let d1 := cutClosed ord k d0
          (d1, "cut " ++ mvListing d1)
        | none =>
          let d1 := moveClosed d0
          (d1, "nohit " ++ mvRes (moveRes d0) ++ " " ++ mvListing d1)
      else (d, "bad-op")
    | _, _ => (d, "bad-op")
  | ["state"] => (d, "state " ++ mvListing d)
  | _ => (d, "bad-op")

end Sts.Drv
