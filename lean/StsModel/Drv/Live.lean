import StsModel.Model.Protocol
import StsModel.Drv.Common
/-
  Line-protocol driver of the `live` component (Model/Protocol.lean, property C03).

    conf threads=<n> payload=<n> chunk=<n> order=fifo|lifo|alpha|none attempts=<n> delete=0|1
    file <name> <size> <seed>
    fault tx err|lost|cut:<k>|206:<k>   fault poll err   fault rc err   fault corrupt   fault slow
    restart receiver|sender <event-index>
    run <timeout-s>      -> complete files=<n> delivered=<n> staged=0
    trace <obs> ...      -> trace-ok | not-enabled <k> <obs> | not-complete <file-index>

  `run`: the model is built from the description (one record per file, parts = size / chunk
  rounded up, predecessor = the previous file of the same group in the configured order,
  budget = number of faults and restarts of the plan), a fixed adversary spends the whole
  budget on fault actions interleaved with protocol steps, then the receiver-first scheduler
  runs until nothing is enabled, with `measure` as fuel (Props/C03.lean: `run_bounded`,
  `eventually_complete`). The answer is read off the final model state.

  `trace`: observations of the real run (harness/live.go liveTrace) are replayed on the model
  with ONE abstract part per file; see `obsStep` for the translation of each observation into
  model actions. Each model action must be enabled (`step` is the judge), each poll verdict
  must be the one `pollVerdict` reads from the model's receiver phase, and at the end every
  file must be done and delivered.
-/
namespace Sts.Drv
open Sts.Protocol

structure LiveSt where
  attempts : Nat := 3
  order : String := "fifo"
  payload : Nat := 64
  chunk : Nat := 0
  files : List (String × Nat) := []
  nfaults : Nat := 0
  ran : Bool := false
  deriving Inhabited

def liveNat? (s : String) (max : Nat) : Option Nat :=
  if s.isEmpty || s.length > 6 || !s.all Char.isDigit then none
  else match s.toNat? with
    | some n => if n ≤ max then some n else none
    | none => none

def liveKV? (tok key : String) : Option String :=
  if tok.startsWith (key ++ "=") then some (tok.drop (key.length + 1)).toString else none

def liveNameCharOK (c : Char) : Bool := c.isLower || c.isDigit || c == '.'

def liveNoDoubleDot : List Char → Bool
  | '.' :: '.' :: _ => false
  | _ :: rest => liveNoDoubleDot rest
  | [] => true

def liveNameOK (s : String) : Bool :=
  let cs := s.toList
  match cs with
  | [] => false
  | c :: _ =>
    cs.length ≤ 20 && c.isLower && cs.getLast? != some '.' && cs.all liveNameCharOK && liveNoDoubleDot cs

def liveDigits12 (s : String) : Bool := (s.length == 1 || s.length == 2) && s.all Char.isDigit

def liveTxKindOK (k : String) : Bool :=
  k == "err" || k == "lost" ||
  (k.startsWith "cut:" && liveDigits12 (k.drop 4).toString) ||
  (k.startsWith "206:" && liveDigits12 (k.drop 4).toString)

/-- Group of a name: harness/e2e.go grouper with the pattern `^([^\.]*)`: the text before the
first dot when it is not empty and not the whole name, else the empty group. -/
def liveGroup (name : String) : String :=
  let pre := String.ofList (name.toList.takeWhile (· ≠ '.'))
  if pre ≠ "" ∧ pre ≠ name then pre else ""

def liveInsByName (x : String × Nat) : List (String × Nat) → List (String × Nat)
  | [] => [x]
  | y :: ys => if x.1 < y.1 then x :: y :: ys else y :: liveInsByName x ys

/-- Files in sending order of their groups. -/
def liveSendOrder (order : String) (files : List (String × Nat)) : List (String × Nat) :=
  if order == "lifo" then files.reverse
  else if order == "alpha" then files.foldr liveInsByName []
  else files

/-- Index of the last file of `done` (reversed prefix) in the same group. -/
def livePred (order : String) (prefixNames : List String) (name : String) : Option Nat :=
  if order == "none" then none
  else
    let g := liveGroup name
    let idx := (List.range prefixNames.length).reverse.find? (fun j =>
      match prefixNames[j]? with
      | some n => liveGroup n == g
      | none => false)
    idx

def liveBuildFiles (order : String) (partsOf : Nat → Nat) (sorted : List (String × Nat)) : List FileSt :=
  (List.range sorted.length).filterMap (fun i =>
    match sorted[i]? with
    | some (name, size) =>
      some (initFile (partsOf size) (livePred order ((sorted.take i).map (·.1)) name))
    | none => none)

def liveParts (st : LiveSt) (size : Nat) : Nat :=
  let c := if st.chunk > 0 then st.chunk else st.payload
  let n := (size + c - 1) / c
  if n = 0 then 1 else n

/-- The model state of a case. For the `run` prediction: parts by size, predecessor = previous
file of the group in the configured order. For the trace replay: one abstract part per file and
no predecessors: the chain the sender announces is dynamic (a file queued again after a failed
validation is popped before older files that are still queued and becomes their predecessor),
so the order of deliveries is not replayed here (it is property C04's subject). -/
def liveInit (st : LiveSt) (oneTrace : Bool) (budget : Nat) : State :=
  let sorted := liveSendOrder st.order st.files
  { files := liveBuildFiles (if oneTrace then "none" else st.order)
      (if oneTrace then fun _ => 1 else liveParts st) sorted,
    attempts := st.attempts, budget := budget }

/-- Position of a declared file (declaration index) in the model's list (sending order). -/
def liveIndexMap (st : LiveSt) : List Nat :=
  let sorted := (liveSendOrder st.order st.files).map (·.1)
  st.files.map (fun f => (sorted.findIdx (· == f.1)))

/-- Fault actions the adversary tries, rotated by `k`. -/
def liveFaultCands (n k : Nat) : List Action :=
  let per := (List.range n).flatMap (fun i => [Action.loseAck i, .corrupt i, .dropPart i, .pollError i])
  let all := per ++ [Action.crashSender, .crashReceiver]
  all.drop (k % (all.length)) ++ all.take (k % (all.length))

def liveAdversary : Nat → Nat → State → State
  | 0, _, s => s
  | rounds + 1, k, s =>
    let s1 := runToQuiescence 2 s
    if s1.budget = 0 then s1
    else
      match (liveFaultCands s1.files.length (k * 3)).find? (enabled s1) with
      | some a =>
        match step s1 a with
        | some s2 => liveAdversary rounds (k + 1) s2
        | none => s1
      | none => s1

def liveIsStaged : RPhase → Bool
  | .part _ | .complete | .failed | .held => true
  | _ => false

def liveRunAnswer (st : LiveSt) : String :=
  let s0 := liveInit st false st.nfaults
  let s1 := liveAdversary (st.nfaults + 1) 0 s0
  let s2 := { s1 with budget := 0 }
  let s3 := runToQuiescence (measure s2) s2
  let n := s3.files.length
  let delivered := (s3.files.filter (fun f => f.rp == .delivered)).length
  let done := (s3.files.filter (fun f => f.sp == .done)).length
  let staged := (s3.files.filter (fun f => liveIsStaged f.rp)).length
  if Complete s3 then
    s!"complete files={n} delivered={delivered} staged={staged}"
  else
    s!"stuck: model delivered={delivered} done={done} staged={staged} of {n}"

/-! ### trace replay -/

def liveDo (s : State) (acts : List Action) : Option State :=
  acts.foldlM (fun s a => step s a) s

/-- Does the observed poll code agree with the model's receiver phase (after hidden steps)? -/
def liveVerdictOK (code : Nat) (rp : RPhase) : Bool :=
  match code, rp with
  | 0, .absent | 0, .part _ | 0, .complete => true
  | 1, .failed => true
  | 2, .held | 2, .delivered => true
  | 3, .held | 3, .delivered => true
  | _, _ => false

/-- A validation observed at the receiver: of an intact staged copy, or of one that is damaged.
Besides the corruption injected by the harness (observed as `X:i`) a staged copy can be damaged
by the receiver itself: parts of a file whose validation just failed arrive while the old
companion is still in place (Prepare ran before the verdict), the fresh, partly filled `.part`
is taken for complete, and its validation fails. The replay keeps both outcomes; the next poll
verdict tells which one happened. -/
def liveValidateAlts (i : Nat) : List (List Action) := [[.validate i], [.corrupt i, .validate i]]

/-- All model states reached by one of the given action sequences. -/
def liveAlts (s : State) (alts : List (List Action)) : List State :=
  alts.filterMap (liveDo s)

/-- One observation -> the model states that explain it (empty = the observation is not a
possible step of the model). Where the observation does not determine the model action, all
candidates are kept (`liveTraceLoop` carries a set of states).
  * `C:i` the receiver completed file i: the abstract part was recorded; either its
    acknowledgement reaches the sender (`sendPart`) or it does not (`loseAck`: lost answer,
    cut connection; the sender will ask and re-send). After a restart of the sender that
    resumes the file without asking, the hidden start-up poll comes first. A completion of a
    file that is complete already (found complete again by Recover) changes nothing.
  * `X:i` corrupt; `V:i` process() ended: `validate` (see `liveValidateAlts`) when a validation is
    pending, else nothing (process ignores files that are not in state received).
  * `F:i` logged: `release` (preceded by the pending `validate` when its end was not recorded
    yet); nothing when already delivered (logged again after a restart).
  * `S:i` sent: the acknowledgement of a duplicate part when the receiver had the file
    already, then `allAcked`; when the receiver's record is incomplete, the fault `earlyAcked`.
  * `P:i:c` poll verdict: hidden pending `validate` when the verdict shows it happened, the
    verdict must match the receiver phase, then `poll`. A verdict for a file that is done
    (marked done in memory, polled again after a restart) is ignored.
  * `D:i` requires the model's sender phase to be done, `T:i` (retry) to be `pending 0`.
  * `CS` / `CR` crashSender / crashReceiver. -/
def obsStep (s : State) (imap : List Nat) (tok : String) : List State :=
  match tok.splitOn ":" with
  | ["CS"] => liveAlts s [[.crashSender]]
  | ["CR"] => liveAlts s [[.crashReceiver]]
  | kind :: istr :: rest =>
    match istr.toNat? with
    | none => []
    | some di =>
      match imap[di]? with
      | none => []
      | some i =>
        match s.files[i]? with
        | none => []
        | some f =>
          match kind, rest with
          | "C", [] =>
            let pre : List Action := if f.sp == .repoll then [.poll i] else []
            match liveDo s pre with
            | none => []
            | some s1 =>
              match s1.files[i]? with
              | none => []
              | some f1 =>
                match f1.sp, f1.rp with
                | .pending 0, .absent | .pending 0, .failed =>
                  liveAlts s1 [[.sendPart i], [.loseAck i]]
                | _, .complete => [s1]
                | _, _ => []
          | "X", [] => liveAlts s [[.corrupt i]]
          | "V", [] =>
            if f.rp == .complete then
              -- a sender that is re-sending the file (pending 0) may have collected the
              -- acknowledgement of the duplicate before this validation ended although its
              -- `sent` is logged (observed) only afterwards
              liveAlts s (liveValidateAlts i ++
                (if f.sp == .pending 0 then (liveValidateAlts i).map (fun l => Action.sendPart i :: l) else []))
            else [s]
          | "F", [] =>
            match f.rp with
            | .complete => liveAlts s [[.validate i, .release i]]
            | .held => liveAlts s [[.release i]]
            | .delivered => [s]
            | _ => []
          | "S", [] =>
            match f.sp, f.rp with
            | .pending 0, .complete | .pending 0, .held | .pending 0, .delivered =>
              liveAlts s [[.sendPart i, .allAcked i]]
            | .pending 1, _ => liveAlts s [[.allAcked i]]
            -- logged as sent while the receiver's record is incomplete: the tracker counted bytes of the
            -- version twice (fault action `earlyAcked`, known finding C08-requeued-same-version)
            | .pending 0, _ => liveAlts s [[.earlyAcked i]]
            | _, _ => []
          | "P", [cstr] =>
            match cstr.toNat? with
            | none => []
            | some code =>
              if f.sp == .done then (if code == 2 || code == 3 then [s] else [])
              else
                let pres : List State :=
                  if f.rp == .complete && (code == 2 || code == 3 || code == 1) then
                    liveAlts s (liveValidateAlts i)
                  else [s]
                pres.flatMap (fun s1 =>
                  match s1.files[i]? with
                  | none => []
                  | some f1 =>
                    if liveVerdictOK code f1.rp then liveAlts s1 [[.poll i]] else [])
          | "D", [] => if f.sp == .done then [s] else []
          | "T", [] => if f.sp == .pending 0 then [s] else []
          | _, _ => []
  | _ => []

def liveDedup (l : List State) : List State :=
  l.foldl (fun acc s => if acc.contains s then acc else acc ++ [s]) []

/-- Replay with a set of candidate states: the trace is accepted when some run of the model
explains every observation and ends with every file done and delivered. -/
def liveTraceLoop (imap : List Nat) : Nat → List State → List String → String
  | _, ss, [] =>
    if ss.any (fun s => Complete s) then "trace-ok"
    else
      match ss.head? with
      | some s =>
        match s.files.findIdx? (fun f => !f.complete) with
        | some i => s!"not-complete {i}"
        | none => "not-complete"
      | none => "not-complete"
  | k, ss, tok :: rest =>
    match liveDedup (ss.flatMap (fun s => obsStep s imap tok)) with
    | [] => s!"not-enabled {k} {tok}"
    | ss' => liveTraceLoop imap (k + 1) ss' rest

def liveStep (st : LiveSt) (ws : List String) : LiveSt × String :=
  match ws with
  | "run" :: rest =>
    match rest with
    | [t] =>
      match liveNat? t 3600 with
      | some secs =>
        if st.ran || secs < 1 then (st, "bad-op")
        else ({ st with ran := true }, liveRunAnswer st)
      | none => (st, "bad-op")
    | _ => (st, "bad-op")
  | "trace" :: toks =>
    if !st.ran then (st, "bad-op")
    else if toks.isEmpty then (st, "trace-ok")
    else (st, liveTraceLoop (liveIndexMap st) 0 [liveInit st true (toks.length + 1)] toks)
  | _ =>
    if st.ran then (st, "bad-op") else
    match ws with
    | ["conf", a, b, c, d, e, f] =>
      match liveKV? a "threads", liveKV? b "payload", liveKV? c "chunk", liveKV? d "order",
            liveKV? e "attempts", liveKV? f "delete" with
      | some th, some pl, some ch, some ord, some att, some de =>
        match liveNat? th 8, liveNat? pl 100000, liveNat? ch 100000, liveNat? att 20, liveNat? de 1 with
        | some th, some pl, some ch, some att, some _ =>
          if th < 1 || pl < 10 || att < 1 then (st, "bad-op")
          else if ord == "fifo" || ord == "lifo" || ord == "alpha" || ord == "none" then
            ({ st with attempts := att, order := ord, payload := pl, chunk := ch }, "ok")
          else (st, "bad-op")
        | _, _, _, _, _ => (st, "bad-op")
      | _, _, _, _, _, _ => (st, "bad-op")
    | ["file", name, size, seed] =>
      match liveNat? size 100000, liveNat? seed 999999 with
      | some sz, some _ =>
        if !liveNameOK name || st.files.any (·.1 == name) || st.files.length ≥ 12 then (st, "bad-op")
        else ({ st with files := st.files ++ [(name, sz)] }, "ok")
      | _, _ => (st, "bad-op")
    | ["fault", "tx", k] =>
      if liveTxKindOK k then ({ st with nfaults := st.nfaults + 1 }, "ok") else (st, "bad-op")
    | ["fault", "poll", "err"] => ({ st with nfaults := st.nfaults + 1 }, "ok")
    | ["fault", "rc", "err"] => ({ st with nfaults := st.nfaults + 1 }, "ok")
    | ["fault", "corrupt"] => ({ st with nfaults := st.nfaults + 1 }, "ok")
    | ["fault", "slow"] => ({ st with nfaults := st.nfaults + 1 }, "ok")
    | ["restart", who, idx] =>
      match liveNat? idx 100000 with
      | some _ =>
        if who == "receiver" || who == "sender" then ({ st with nfaults := st.nfaults + 1 }, "ok")
        else (st, "bad-op")
      | none => (st, "bad-op")
    | _ => (st, "bad-op")

end Sts.Drv
