/-
  Driver for component `wire` (property C13): the payload wire format. One case = a payload
  description (`part` lines) followed by encode / decode / request operations; see
  harness/wire.go for the op grammar. File contents are never transmitted: byte `off` of
  a file with seed `s` is `(off * 31 + s) mod 251` on both sides.
-/
import StsModel.Model.Wire
import StsModel.Drv.Common
namespace Sts.Drv
open Sts.Wire

structure WPart where
  d : Desc
  flen : Int      -- real length of the sender's file; negative: cannot be opened
  seed : Nat
deriving Inhabited

structure WState where
  all : List WPart := []       -- every `part` line (header source `mirror`)
  binned : List WPart := []    -- those the real Bin.Add accepted (end > beg)
deriving Inhabited

def genByte (seed off : Nat) : UInt8 := UInt8.ofNat ((off * 31 + seed) % 251)

/-- bytes [a, b) of the file with this seed. -/
def genRange (seed a b : Nat) : List UInt8 := (List.range (b - a)).map (fun i => genByte seed (a + i))

def cksum (bs : List UInt8) : Nat := bs.foldl (fun h b => (h * 131 + b.toNat + 1) % 4294967291) 7
def cksumN (ns : List Nat) : Nat := ns.foldl (fun h b => (h * 131 + b + 1) % 4294967291) 7

def wFile (p : WPart) : Option (List UInt8) :=
  if p.flen < 0 then none else some (genRange p.seed 0 p.flen.toNat)

/-- first `n` elements of the infinite repetition of `l` (`l` non-empty). -/
def cyc (l : List Nat) (n : Nat) : List Nat :=
  let a := l.toArray
  if a.size = 0 then [] else (List.range n).map (fun i => a[i % a.size]!)

def fmtDesc (d : Desc) : String :=
  s!"{esc d.name} {esc d.renamed} {esc d.prev} {esc d.hash} {d.sec} {d.nano} {d.size} {d.beg} {d.fin}"

def fmtStatus : Status → String
  | .ok200 => "200"
  | .partial206 n => s!"206:{n}"
  | .bad400 => "400"
  | .err500 => "500"
  | .panic => "panic"
  | .hang => "hang"

def fmtRd : RdRes → String
  | .ok => "more" | .eof => "eof" | .err => "err" | .panic => "panic"

def parseSep (s : String) : Option (Option Char) :=
  match (unesc s).toList with
  | [] => some none
  | [c] => some (some c)
  | _ => none

/-- sender-side stream of the binned parts as the real Encoder produces it when read with
    buffers of `sizes` (cyclic) filled with `fill`. -/
def encRun (st : WState) (fill : UInt8) (sizes : List Nat) : List (List UInt8) × ReadRes :=
  let ds := st.binned.map (·.d)
  let files := st.binned.map wFile
  let total := (st.binned.map (fun p => (p.d.fin - p.d.beg).toNat)).foldl (· + ·) 0
  let r := (Enc.init (eparts ds files)).run fill (cyc sizes (total + st.binned.length + 2))
  (r.1, r.2.1)

/-- header and part bytes of a request: source `real` = the real Bin (binned parts, real
    encoder output through 32 KiB buffers); `mirror` = every descriptor with a hand-made
    header and, for each descriptor with end > beg, its slice of an (unbounded) file. -/
def wireOf (st : WState) (src : String) : Option (List Desc × List UInt8) :=
  if src == "real" then
    some (st.binned.map (·.d), (encRun st 0 [32768]).1.flatten)
  else if src == "mirror" then
    some (st.all.map (·.d),
      (st.all.map (fun p => if p.d.beg ≥ 0 ∧ p.d.fin > p.d.beg then genRange p.seed p.d.beg.toNat p.d.fin.toNat else [])).flatten)
  else none

/-- the X-STS-MetaLen token: x exact, d<int> relative, a<int> absolute, s<string> raw, n absent. -/
def metaLenOf (tok : String) (hlen : Nat) : Option (List Char) :=
  match tok.toList with
  | ['x'] => some (natDigits hlen)
  | ['n'] => some []
  | 'd' :: r => (String.ofList r).toInt?.map (fun i => intDigits ((hlen : Int) + i))
  | 'a' :: r => (String.ofList r).toInt?.map intDigits
  | 's' :: r => some (unesc (String.ofList r)).toList
  | _ => none

structure ReqSpec where
  ds : List Desc
  ml : List Char
  data : List UInt8
  broken : Bool

def mkReq (st : WState) (src ml cut endk extra : String) : Option ReqSpec := do
  let (ds, parts) ← wireOf st src
  let hdr := jsonHeader ds
  let mlc ← metaLenOf ml hdr.length
  let cutI ← parseInt? cut
  let extraN ← parseNat? extra
  let broken ← (if endk == "c" then some false else if endk == "b" then some true else none)
  let full := hdr ++ parts ++ List.replicate extraN 90
  let data := if cutI < 0 then full else full.take cutI.toNat
  some ⟨ds, mlc, data, broken⟩

def w_fmtParts (rs : List (Desc × List UInt8)) : String :=
  String.join (rs.map (fun r => s!" | {fmtDesc r.1} len={r.2.length} sum={cksum r.2}"))

def wireStep (st : WState) (ws : List String) : WState × String :=
  match ws with
  | ["part", name, renamed, prev, hash, sec, nano, size, beg, fin, flen, seed] =>
    match parseInt? sec, parseInt? nano, parseInt? size, parseInt? beg, parseInt? fin, parseInt? flen, parseNat? seed with
    | some sec, some nano, some size, some beg, some fin, some flen, some seed =>
      let p : WPart := ⟨⟨unesc name, unesc renamed, unesc prev, unesc hash, sec, nano, size, beg, fin⟩, flen, seed⟩
      -- payload/bin.go Bin.Add with unlimited capacity: a part is added iff end - beg > 0
      if fin - beg > 0 then
        let st' := { st with all := st.all ++ [p], binned := st.binned ++ [p] }
        (st', s!"ok {(st'.binned.map (fun q => q.d.fin - q.d.beg)).foldl (· + ·) 0}")
      else ({ st with all := st.all ++ [p] }, "refused")
    | _, _, _, _, _, _, _ => (st, "bad-op")
  | ["remove", i] =>
    -- payload/bin.go Bin.Remove: the last part takes the place of the removed one
    match parseNat? i with
    | some i =>
      if i < st.binned.length then
        let n := st.binned.length
        let b1 := match st.binned[n - 1]? with
          | some l => (st.binned.set i l).take (n - 1)
          | none => st.binned
        let st' := { st with binned := b1 }
        (st', s!"ok {(st'.binned.map (fun q => q.d.fin - q.d.beg)).foldl (· + ·) 0}")
      else (st, "bad-op")
    | none => (st, "bad-op")
  | ["split", n] =>
    -- payload/bin.go Bin.Split(n): nil unless 1 <= n < #parts; the parts from position n on are the next payload
    match parseInt? n with
    | some n =>
      if n < 1 || n ≥ (st.binned.length : Int) then (st, "nil")
      else
        let st' := { st with binned := st.binned.drop n.toNat }
        (st', s!"ok {(st'.binned.map (fun q => q.d.fin - q.d.beg)).foldl (· + ·) 0}")
    | none => (st, "bad-op")
  | ["hdr"] =>
    let h := jsonHeader (st.binned.map (·.d))
    (st, s!"len={h.length} sum={cksum h}")
  | "enc" :: fill :: sizes =>
    match parseNat? fill, sizes.mapM parseNat? with
    | some fill, some sizes =>
      if sizes.isEmpty then (st, "bad-op")
      else if st.binned.isEmpty then (st, "noparts")
      else
        let r := encRun st (UInt8.ofNat fill) sizes
        let bytes := r.1.flatten
        let e := match r.2 with | .ok => "more" | .eof => "eof" | .err => "err"
        (st, s!"n={bytes.length} sum={cksum bytes} reads={r.1.length} rsum={cksumN (r.1.map List.length)} end={e}")
    | _, _ => (st, "bad-op")
  | "decx" :: sep :: ml :: cut :: endk :: extra :: src :: chunk :: sizes =>
    match parseSep sep, mkReq st src ml cut endk extra, parseNat? chunk, sizes.mapM parseNat? with
    | some sep, some rq, some chunk, some sizes =>
      if sizes.isEmpty then (st, "bad-op") else
      match parseInt64? rq.ml with
      | none => (st, "bad-op")
      | some n =>
        match newDecoder (caseCodec rq.ds) n sep ⟨rq.data, rq.broken⟩ with
        | .fail => (st, "fail")
        | .hang => (st, "hang")
        | .ok ds rest =>
          let eff := sizes.map (fun k => if chunk = 0 then k else min k chunk)
          let szs := ds.map (fun d => cyc eff (d.len.toNat + 2))
          let rs := decodeParts ds szs rest
          let body := String.join ((ds.zip rs).map (fun x =>
            s!" | {fmtDesc x.1} len={x.2.1.length} sum={cksum x.2.1} end={fmtRd x.2.2}"))
          (st, s!"ok n={ds.length}{body}")
    | _, _, _, _ => (st, "bad-op")
  | ["put", gk, sep, gz, ml, cut, endk, extra, xr, src] =>
    let rk? : Option RecvKind := if gk == "stub" then some .stub else if gk == "stage" then some .stage else none
    match rk?, parseSep sep, parseInt? gz, mkReq st src ml cut endk extra, parseNat? xr with
    | some rk, some sep, some gz, some rq, some xr =>
      -- an empty body with Content-Length 0 is "no request body"; a gzip stream is never empty
      let hasBody := gz ≥ 0 || !rq.data.isEmpty || rq.broken
      let r := routeData (caseCodec rq.ds) rk false hasBody rq.ml sep xr ⟨rq.data, rq.broken⟩
      let prep := match r.prepared with | some ds => toString ds.length | none => "-"
      (st, s!"status={fmtStatus r.status} prep={prep}{w_fmtParts r.received}")
    | _, _, _, _, _ => (st, "bad-op")
  | ["putgz", _level, _num, _den] => (st, "unmodelled")
  | ["http2", level] =>
    -- two overlapping Transmit calls of ONE client for a payload whose parts are all readable ranges: each request
    -- is encoded and compressed on its own, so both are answered 200 with all parts
    match parseNat? level with
    | some l =>
      if l > 9 then (st, "bad-op")
      else if st.binned.isEmpty then (st, "noparts")
      else if st.binned.any (fun p => p.d.beg < 0 ∨ p.flen < p.d.fin) then (st, "skip")
      else
        -- only payloads that ONE request delivers completely (stub receiver) are sent in parallel
        let ds := st.binned.map (·.d)
        let c := caseCodec ds
        let body := transmitBody c 0 ds (st.binned.map wFile)
          (cyc [32768] ((st.binned.map (fun p => (p.d.fin - p.d.beg).toNat)).foldl (· + ·) 0 + st.binned.length + 2))
        let r := routeData c .stub false true (metaLenHeader c ds) (some '/') 0 ⟨body, false⟩
        match r.status with
        | .ok200 => (st, s!"n={st.binned.length} ok n={st.binned.length} ok")
        | _ => (st, "skip")
    | none => (st, "bad-op")
  | ["http", gk, level] =>
    let rk? : Option RecvKind := if gk == "stub" then some .stub else if gk == "stage" then some .stage else none
    match rk?, parseNat? level with
    | some rk, some _ =>
      if st.binned.isEmpty then (st, "noparts")
      -- a short read's tail is the old content of io.Copy's buffer: not compared
      else if st.binned.any (fun p => 0 ≤ p.flen ∧ p.flen < p.d.fin) then (st, "skip-short") else
      let ds := st.binned.map (·.d)
      let c := caseCodec ds
      let body := transmitBody c 0 ds (st.binned.map wFile)
        (cyc [32768] ((st.binned.map (fun p => (p.d.fin - p.d.beg).toNat)).foldl (· + ·) 0 + st.binned.length + 2))
      let r := routeData c rk false true (metaLenHeader c ds) (some '/') 0 ⟨body, false⟩
      -- http/client.go Transmit: 200 gives n = number of parts; 206 gives n = the reported count and an error
      let (n, e) := match r.status with
        | .ok200 => (ds.length, "ok")
        | .partial206 k => (k, "err")
        | _ => (0, "err")
      let prep := match r.prepared with | some ds => toString ds.length | none => "-"
      (st, s!"n={n} {e} status={fmtStatus r.status} prep={prep}{w_fmtParts r.received}")
    | _, _ => (st, "bad-op")
  | ["recv", beg, fin, n, endk] =>
    match parseInt? beg, parseInt? fin, parseNat? n with
    | some beg, some fin, some n =>
      if endk != "c" && endk != "b" then (st, "bad-op") else
      let d : Desc := ⟨"f", "", "", "h", 0, 0, fin + 1, beg, fin⟩
      let r := receiveRaw .stage d ⟨genRange 5 0 n, endk == "b"⟩
      (st, match r.2 with | .ok => s!"ok {r.1.length}" | .err => "err" | .panic => "panic")
    | _, _, _ => (st, "bad-op")
  | ["nano", s] =>
    (st, match nanoDec (unesc s).toList with
      | some (sec, nano) => s!"ok {sec} {nano}"
      | none => "err")
  | ["nanoenc", sec, nano] =>
    match parseInt? sec, parseInt? nano with
    | some sec, some nano =>
      let t := unixNorm sec nano
      (st, esc (String.ofList (nanoEnc t.1 t.2)))
    | _, _ => (st, "bad-op")
  | ["sep", sep, name] =>
    match (unesc sep).toList with
    | [c] => (st, esc (String.ofList (sepConvert c (unesc name).toList)))
    | _ => (st, "bad-op")
  | _ => (st, "bad-op")

end Sts.Drv
