import StsModel.Drv.All
def main (args : List String) : IO UInt32 := Sts.Drv.main args
