-- Root of the `StsModel` library: executable model, helper lemmas, property theorems.
import StsModel.Model.Ranges
import StsModel.Props.C09
