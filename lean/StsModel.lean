-- Root of the `StsModel` library: executable model, helper lemmas, property theorems.
import StsModel.Model.Ranges
import StsModel.Model.LogFmt
import StsModel.Model.StageSem
import StsModel.Lemmas.StageLogged
import StsModel.Lemmas.StageLoggedHash
import StsModel.Lemmas.StageFin
import StsModel.Lemmas.StageOnce
import StsModel.Lemmas.StageIntegrity
import StsModel.Lemmas.StageRec
import StsModel.Props.C01
import StsModel.Props.C04
import StsModel.Props.C05
import StsModel.Props.C06
import StsModel.Props.C09
import StsModel.Props.C09Stage
import StsModel.Props.C18
import StsModel.Props.C20
