-- Root of the `StsModel` library: executable model, helper lemmas, property theorems.
import StsModel.Model.Ranges
import StsModel.Model.LogFmt
import StsModel.Model.StageSem
import StsModel.Lemmas.StageLogged
import StsModel.Props.C04
import StsModel.Props.C09
import StsModel.Props.C18
